"""Case generation and oracles for the parse properties C01-C04 (one shared engine, one oracle per property)."""
import os, random, shutil
import pandas as pd
import vlib, docs, nsgen, parsecmp, uaconv, c08
from vlib import Sym
from docs import UA

VALUE_KINDS = ["bool", "int", "float", "string", "loctext", "bytes", "guid", "list", "eu", "range", "datetime"]
def value_gen(rng):
    for _ in range(20):
        v = c08.gen_value(rng, kinds=VALUE_KINDS)
        if v is not None and not c08.causes(v) and c08.impl_encode(v, True)[0] == "ok": return v
    return None
def value_gen_parse(rng):
    """values for the documents of the parser checks: also extension objects with any TypeId and body, raw XML elements and NodeId values"""
    for _ in range(20):
        v = c08.gen_value(rng, kinds=VALUE_KINDS + ["ext", "xml", "nodeid", "ext"])
        if v is not None and not c08.causes(v) and c08.impl_encode(v, True)[0] == "ok": return v
    return None
def value_xml(v):
    """the Value text of a generated document.  Finite floats are written by the harness itself (repr): the documents under test must not
    depend on the state of the implementation's own encoder (memoised encoders made -0.0 and 0.0 the same input)"""
    import math
    name = type(v).__name__
    if name in ("UADouble", "UAFloat") and isinstance(v.value, float) and math.isfinite(v.value):
        return '<%s xmlns="http://opcfoundation.org/UA/2008/02/Types.xsd">%r</%s>' % (name[2:], v.value, name[2:])
    text = v.xml_encode(include_xmlns=True)
    h = sum(text.encode("utf-8")) % 8
    if name == "UAString" and isinstance(v.value, str) and (h == 1 or "preserve" in v.value) and v.value and v.value == v.value.strip() and "<String" in text[:8]:
        # white space around the text, explicitly preserved for XML processors (the value parser strips strings whatever xml:space says)
        return text.replace("<String", '<String xml:space="preserve"', 1).replace(">", ">  ", 1)[::-1].replace("<"[::-1], "  <"[::-1], 1)[::-1] if text.endswith("</String>") else text
    if h in (2, 3) or "prefixed" in text:
        # the same fragment with the types namespace bound to a prefix instead of being the default namespace (same infoset)
        try: return prefixed_fragment(text)
        except Exception: return text
    return text

def prefixed_fragment(text, prefix="uax"):
    import lxml.etree as ET
    NS = "http://opcfoundation.org/UA/2008/02/Types.xsd"
    root = ET.fromstring(text)
    def conv(el, parent=None):
        new = ET.Element(el.tag, attrib=dict(el.attrib), nsmap={prefix: NS}) if parent is None else ET.SubElement(parent, el.tag, attrib=dict(el.attrib))
        new.text = el.text; new.tail = el.tail
        for ch in el:
            if not isinstance(ch.tag, str): raise ValueError("comment or processing instruction")
            conv(ch, new)
        return new
    if not (isinstance(root.tag, str) and root.tag.startswith("{" + NS + "}")): return text
    return ET.tostring(conv(root), encoding="unicode")

def key_of_nid(nid, namespaces):
    ns = int(nid[0])
    return (namespaces[ns] if 0 <= ns < len(namespaces) else "?%d" % ns, nid[1], nid[2])

def expected_rows(g, ds):
    """what the documents declare, at URI level, in file order: one entry per node element"""
    rows = []
    for fname, d, local in sorted(ds, key=lambda x: x[0]):
        for n in d["nodes"]:
            a = dict(n["attrs"])
            rows.append(dict(file=fname, cls=n["cls"], attrs=a, display=(n["display"][0].rstrip() if n["display"] else ""), desc=(n["desc"] or "").rstrip(), local=local))
    return rows

def resolve_text(text, local, aliases, keymap=None):
    """NodeId text or alias of a document -> abstract key"""
    if aliases and text in aliases: text = aliases[text]
    if text.startswith("ns="):
        head, rest = text.split(";", 1); idx = int(head[3:])
    else: idx, rest = 0, text
    t, ident = rest.split("=", 1)
    return (local[idx], t, ident)

INT_ATTRS = {"ValueRank": 32, "AccessLevel": 32, "EventNotifier": 8, "MinimumSamplingInterval": 32}

def oracle_c01(g, ds, out, originals):
    """every declared node becomes exactly one faithful row"""
    fails = []
    if out[0] != "ok": return [("C01/parse-raises", "well-formed documents could not be parsed: %s" % out[1])]
    ns, rows = out[1][0], out[1][1]
    exp = []
    for fname, d, local in sorted(ds, key=lambda x: x[0]):
        al = dict(d["aliases"] or [])
        for n in d["nodes"]:
            exp.append((fname, d, local, al, n))
    if len(rows) != len(exp): return [("C01/row-count", "%d node elements, %d rows" % (len(exp), len(rows)))]
    for (fname, d, local, al, n), r in zip(exp, rows):
        a = dict(n["attrs"])
        want_key = resolve_text(a["NodeId"], local, al)
        got_key = key_of_nid(r[1], ns)
        where = "%s %s" % (fname, a["NodeId"])
        if r[0] != n["cls"]: fails.append(("C01/node-class", where))
        if got_key != want_key: fails.append(("C01/nodeid", "%s: %r, expected %r" % (where, got_key, want_key)))
        bn = a["BrowseName"]
        if ":" in bn: pfx, name = bn.split(":", 1); buri = local[int(pfx)]
        else: name, buri = bn, UA
        if r[2] != name:
            fails.append(("C01/browsename-second-colon" if ":" in name and r[2] == name.split(":")[0] else "C01/browsename", "%s: %r, expected %r" % (where, r[2], name)))
        gb = None if r[3] == [] else (ns[int(r[3][0])] if int(r[3][0]) < len(ns) else None)
        if gb != buri: fails.append(("C01/browsename-namespace", "%s: %r, expected %r" % (where, gb, buri)))
        wd = n["display"][0].rstrip() if n["display"] else ""
        if r[4] != wd: fails.append(("C01/displayname", "%s: %r, expected %r" % (where, r[4], wd)))
        wdesc = (n["desc"] or "").rstrip()
        if r[5] != wdesc: fails.append(("C01/description", "%s: %r, expected %r" % (where, r[5], wdesc)))
        got_attrs = {k: v for k, v in r[6]}
        for k, v in a.items():
            if k in ("NodeId", "BrowseName"): continue
            gv = got_attrs.get(k)
            if k in parsecmp.REFCOLS:
                wk = resolve_text(v, local, al)
                if gv is None or gv[0] != "n" or key_of_nid(gv[1], ns) != wk: fails.append(("C01/attribute-target", "%s %s: %r, expected %r" % (where, k, gv, wk)))
            elif k in ("IsAbstract", "Symmetric"):
                if gv is None or gv[0] != "b" or (gv[1] == "true") != (v in ("true", "1")): fails.append(("C01/attribute-flag", "%s %s=%s: %r" % (where, k, v, gv)))
            elif k in INT_ATTRS:
                if gv is None or gv[0] != "i" or int(gv[1]) != int(v):
                    bits = INT_ATTRS[k]; wrapped = gv is not None and gv[0] == "i" and (int(gv[1]) - int(v)) % (2 ** bits) == 0
                    fails.append(("C01/attribute-int-wrapped" if wrapped else "C01/attribute", "%s %s=%s: %r" % (where, k, v, gv)))
            else:
                if gv is None or gv[1] != v: fails.append(("C01/attribute", "%s %s=%r: %r" % (where, k, v, gv)))
        for k, gv in got_attrs.items():
            if k not in a and not (k in ("IsAbstract", "Symmetric") and gv == ["b", "false"]):
                fails.append(("C01/attribute-invented", "%s: %s=%r is not in the element" % (where, k, gv)))
        # typed value
        orig = originals.get((fname, a["NodeId"]))
        if orig is None:
            if r[7] != []: fails.append(("C01/value-invented", where))
        else:
            if r[7] == [] or r[7][0] != uaconv.py2canon(c08.impl_decode(value_xml(orig), False)[1]):
                fails.append(("C01/value", "%s: %r, value element %s" % (where, r[7], value_xml(orig)[:100])))
    return fails

def expected_triples(g, ds):
    """distinct triples that some document declares"""
    declared = set()
    for fname, d, local in ds:
        al = dict(d["aliases"] or [])
        for n in d["nodes"]:
            me = resolve_text(dict(n["attrs"])["NodeId"], local, al)
            for ty, fwd, trg in n["refs"] or []:
                o = resolve_text(trg.rstrip(), local, al); t = resolve_text(ty, local, al)
                declared.add((me, o, t) if fwd != "false" else (o, me, t))
    return declared

def oracle_c02(g, ds, out):
    if out[0] != "ok": return []
    ns = out[1][0]
    got = [tuple(key_of_nid(x, ns) for x in t) for t in out[1][2]]
    want = expected_triples(g, ds)
    fails = []
    if len(got) != len(set(got)):
        dup = [t for t in set(got) if got.count(t) > 1]
        fails.append(("C02/duplicated", "%d triples appear more than once, e.g. %r" % (len(dup), dup[0])))
    if set(got) - want: fails.append(("C02/invented", "not declared: %r" % (sorted(set(got) - want)[:2],)))
    if want - set(got): fails.append(("C02/lost", "declared but missing: %r" % (sorted(want - set(got))[:2],)))
    return fails

def oracle_c03_single(g, ds, out, caller):
    """properties of the namespace list itself"""
    if out[0] != "ok": return []
    ns = out[1][0]; fails = []
    if caller:
        if ns[:len(caller)] != list(caller): fails.append(("C03/caller-prefix", "caller %r, result %r" % (caller, ns)))
    if (not caller or caller[0] == UA) and ns[0] != UA: fails.append(("C03/index0", "%r" % ns))
    real = [u for u in ns if u != "None"]
    if len(real) != len(set(real)): fails.append(("C03/uri-twice", "%r" % ns))
    for fname, d, local in ds:
        for u in local:
            if u not in ns: fails.append(("C03/uri-missing", "%s declares %s" % (fname, u)))
    return fails

def denotation(out):
    """(URI, identifier) denotation of a whole parse result, independent of indices and row order"""
    ns = out[1][0]
    rows = []
    for r in out[1][1]:
        attrs = []
        for k, v in r[6]:
            if k in ("IsAbstract", "Symmetric") and v == ["b", "false"]: continue      # false and missing are the same statement (the column exists per file)
            attrs.append((k, ("n",) + key_of_nid(v[1], ns)) if v[0] == "n" else (k, tuple(v)))
        rows.append((r[0], key_of_nid(r[1], ns), r[2], None if r[3] == [] else ns[int(r[3][0])], r[4], r[5], tuple(sorted(attrs)), str(r[7])))
    refs = sorted(tuple(key_of_nid(x, ns) for x in t) for t in out[1][2])
    return sorted(rows, key=repr), refs

def oracle_c04(out):
    if out[0] != "ok": return []
    p = out[1]; lk = p[4]; fails = []
    if len(lk) != len(set(map(tuple, lk))): fails.append(("C04/lookup-not-injective", "a NodeId has two ids"))
    ids = [n[0] for n in p[5]]
    nids = [tuple(r[1]) for r in p[1]]
    if len(set(nids)) == len(nids):
        if any(i == [] for i in ids) or len(set(i[0] for i in ids)) != len(ids): fails.append(("C04/node-id-not-unique", "%r" % ids[:10]))
    for r, n in zip(p[1], p[5]):
        if n[0] == [] or lk[int(n[0][0])] != r[1]: fails.append(("C04/node-id-wrong", "%r" % (r[1],)))
        got = {k: v for k, v in r[6]}
        for col, cell in zip(parsecmp.REFCOLS, n[1:]):
            if col in got and got[col][0] == "n":
                if cell == [] or lk[int(cell[0])] != got[col][1]: fails.append(("C04/attribute-id-wrong", "%s" % col))
            elif cell != []: fails.append(("C04/missing-turned-into-id", "%s" % col))
    for t, n in zip(p[2], p[6]):
        for x, c in zip(t, n):
            if c == [] or lk[int(c[0])] != x: fails.append(("C04/reference-id-wrong", "%r" % (x,)))
    return fails

def oracle_c04_denorm(res):
    """the library's own way back from ids to NodeIds (nodeset_generator.create_lookup_df / denormalize_nodes_nodeids / denormalize_references_nodeids,
    as the writer uses them) against the parse output's lookup table"""
    from opcua_tools.nodeset_generator import create_lookup_df, denormalize_nodes_nodeids, denormalize_references_nodeids
    nodes, refs = res["nodes"], res["references"]
    uniq = list(res["lookup_df"]["uniques"])
    isna = parsecmp.isna
    fails = []
    before = (repr(list(nodes.columns)), len(nodes), len(refs))
    try:
        lk_nodes = create_lookup_df(nodes)
        own = {int(i): n for i, n in zip(nodes["id"], nodes["NodeId"])}
        got = {int(i): n for i, n in zip(lk_nodes.index, lk_nodes["uniques"])}
        if got != own or len(lk_nodes) != len(nodes): fails.append(("C04/denormalize", "create_lookup_df does not map every node's id to its NodeId"))
        full = res["lookup_df"][["uniques"]].copy(); full.index = range(len(full))
        dn = denormalize_nodes_nodeids(nodes.copy(), full)
        if len(dn) != len(nodes) or sorted(int(i) for i in dn["id"]) != sorted(int(i) for i in nodes["id"]):
            fails.append(("C04/denormalize", "denormalize_nodes_nodeids returns %d rows for %d nodes" % (len(dn), len(nodes))))
        else:
            want = {}
            for _, r in nodes.iterrows():
                want[int(r["id"])] = tuple(None if (c not in nodes.columns or isna(r[c])) else uniq[int(r[c])] for c in parsecmp.REFCOLS)
            for _, r in dn.iterrows():
                g_ = tuple(None if (c not in dn.columns or isna(r[c])) else r[c] for c in parsecmp.REFCOLS)
                if g_ != want[int(r["id"])]:
                    fails.append(("C04/denormalize", "node id %d: attribute targets %r, the lookup table says %r" % (int(r["id"]), g_, want[int(r["id"])]))); break
        dr = denormalize_references_nodeids(refs.copy(), full)
        wt = sorted(repr((uniq[int(a)], uniq[int(b)], uniq[int(c)])) for a, b, c in zip(refs["Src"], refs["Trg"], refs["ReferenceType"]))
        gt = sorted(repr((a, b, c)) for a, b, c in zip(dr["Src"], dr["Trg"], dr["ReferenceType"]))
        if wt != gt: fails.append(("C04/denormalize", "denormalize_references_nodeids: %d triples, %d expected; first difference %r" % (len(gt), len(wt), next(((x, y) for x, y in zip(gt, wt) if x != y), None))))
    except BaseException as e:
        fails.append(("C04/denormalize", "denormalisation raised %s: %s" % (type(e).__name__, str(e)[:120])))
    if (repr(list(nodes.columns)), len(nodes), len(refs)) != before: fails.append(("C04/denormalize", "the parse output was modified"))
    return fails

def fixed_values():
    """extension objects whose TypeId has the identifier of a structure the library decodes itself (EUInformation 888, Range 885) but lies in ANOTHER
    namespace, with bodies of every kind; and one with the reserved ids in namespace 0 for contrast"""
    from opcua_tools import ua_data_types as T
    NS = "http://opcfoundation.org/UA/2008/02/Types.xsd"
    rng_body = T.UAXMLElement('<Range xmlns="%s"><Low>1.0</Low><High>2.0</High></Range>' % NS)
    return [T.UAExtensionObject(type_nodeid=T.UANodeId(1, "i", "888"), body=rng_body), T.UAExtensionObject(type_nodeid=T.UANodeId(1, "i", "885"), body=rng_body),
            T.UAExtensionObject(type_nodeid=T.UANodeId(2, "i", "885"), body=T.UAXMLElement('<Vendor xmlns="urn:vendor"><X>1</X></Vendor>')),
            T.UAExtensionObject(type_nodeid=T.UANodeId(1, "s", "888"), body=rng_body), T.UAExtensionObject(type_nodeid=T.UANodeId(0, "i", "886"), body=rng_body),
            T.UAListOf((T.UAExtensionObject(type_nodeid=T.UANodeId(1, "i", "888"), body=rng_body),), "ExtensionObject"),
            T.UAEURange(low=1.0, high=2.0)]

def make_case(rng, quick, size=None, wide=None, slash_twin=None, fixed=False, base_in_table=False):
    r_ = rng.random()
    wide = (r_ < 0.08) if wide is None else wide      # many namespaces: two-digit local indices, long namespace tables
    # size: a document set with that many nodes (the number of distinct ids crosses the 8-bit boundaries)
    if size and size != "split": g = nsgen.gen_graph(rng, n_ns=2, n_nodes=size, hostile=False, with_values=False, value_gen=value_gen_parse)
    elif slash_twin: g = nsgen.gen_graph(rng, n_ns=rng.randint(2, 3), n_nodes=rng.randint(5, 8), value_gen=value_gen_parse, slash_twin=True)
    else: g = nsgen.gen_graph(rng, n_ns=rng.randint(10, 13) if wide else rng.randint(1, 3), n_nodes=rng.randint(12, 16) if wide else rng.randint(1, 7 if quick else 10), value_gen=value_gen_parse)
    if wide and not size and not slash_twin:
        # browse names qualified with EVERY namespace of the wide table in turn (two-digit browse-name prefixes)
        own_ = [k for k in g.order if k[0] != nsgen.UA]
        for i_, k_ in enumerate(own_): g.nodes[k_]["bname"] = (g.uris[i_ % len(g.uris)], g.nodes[k_]["bname"][1])
    if size == "split":
        # one namespace spread over two documents, with a reference between its first and its last node declared in BOTH documents
        g = nsgen.gen_graph(rng, n_ns=1, n_nodes=6, value_gen=value_gen_parse)
        own = [k for k in g.order if k[0] == g.uris[0]]
        if len(own) >= 2:
            g.refs.append((own[0], own[-1], (nsgen.UA, "i", "47"))); g.force_both = [len(g.refs) - 1]
    if fixed and g.uris:
        for j_, v_ in enumerate(fixed_values()):
            k_ = (g.uris[0], "s", "FixedValue%d" % j_); g.nodes[k_] = dict(cls="UAVariable", bname=(g.uris[0], "FixedValue%d" % j_), display="FixedValue%d" % j_, desc=None, attrs={}, value=v_); g.order.append(k_)
    # one case in five: companion specifications parsed on their own - everything of the base namespace they name (types, parents, reference types) is undefined
    g.with_base = rng.random() >= 0.2
    g.split = "force" if size == "split" else rng.random() < 0.35
    if base_in_table: g.base_in_table = True        # every document lists the OPC UA namespace in its own table and uses that index for base identifiers
    ds = nsgen.serialise(g, rng, value_xml=value_xml, with_base=g.with_base, split=g.split)
    return g, ds

def originals_of(g, ds):
    o = {}
    for fname, d, local in ds:
        al = dict(d["aliases"] or [])
        for n in d["nodes"]:
            nid = dict(n["attrs"])["NodeId"]
            k = resolve_text(nid, local, al)
            if g.nodes.get(k, {}).get("value") is not None and n.get("value") is not None: o[(fname, nid)] = g.nodes[k]["value"]
    return o

def render_set(ds, rng):
    lay = dict(prefix=rng.choice([None, None, "ua", "n"]), indent=rng.random() < 0.7, attr_blank=rng.random() < 0.2)
    return [(n, docs.render(d, rng, lay)) for n, d, _ in ds], lay

def malformed(rng, ds):
    """one malformation of a document set (out-of-domain stream)"""
    import copy
    ds = copy.deepcopy(ds); kind = rng.choice(["no-nodeid", "bad-alias", "bad-bn-prefix", "no-browsename", "bad-nodeid", "no-reftype", "empty-ref", "bad-int-attr", "dup-nodeid", "unmapped-ns", "no-nodes"])
    cands = [d for _, d, _ in ds if d["nodes"]]
    if not cands: return ds, "none"
    d = rng.choice(cands); n = rng.choice(d["nodes"])
    if kind == "no-nodeid": n["attrs"] = [kv for kv in n["attrs"] if kv[0] != "NodeId"]
    elif kind == "bad-alias": d["aliases"] = (d["aliases"] or []) + [("Broken", rng.choice(["not a nodeid", "ns=x;i=1", "", "i"]))]
    elif kind == "bad-bn-prefix": n["attrs"] = [(k, ("x:" + v) if k == "BrowseName" else v) for k, v in n["attrs"]]
    elif kind == "no-browsename": n["attrs"] = [kv for kv in n["attrs"] if kv[0] != "BrowseName"]
    elif kind == "bad-nodeid": n["attrs"] = [(k, rng.choice(["q=1", "i=01", "i=abc", "ns=1", "junk"]) if k == "NodeId" else v) for k, v in n["attrs"]]
    elif kind == "no-reftype": n["refs"] = (n["refs"] or []) + [(None, None, "i=85")]
    elif kind == "empty-ref": n["refs"] = (n["refs"] or []) + [("i=47", None, "")]
    elif kind == "bad-int-attr":
        k = rng.choice(["ValueRank", "AccessLevel", "MinimumSamplingInterval"])
        n["attrs"] = [kv for kv in n["attrs"] if kv[0] != k] + [(k, rng.choice(["0.5", "abc", "255", "128", "-129", "4294967296"]))]
    elif kind == "dup-nodeid": d["nodes"].append(copy.deepcopy(n))
    elif kind == "unmapped-ns": n["attrs"] = [(k, "ns=9;i=1" if k == "NodeId" else v) for k, v in n["attrs"]]
    elif kind == "no-nodes": d["nodes"] = []
    return ds, kind

class _Collect:
    def __init__(self): self.fails = []
    def record(self, *a, **k): pass
    def fail(self, sig, case, detail): self.fails.append((sig, detail))
def big_document(ctx, prop, work, rng, n=None, salt=None):
    """one document with more node elements than fit in the parser's real batch (100000 start/end events), judged by the oracle alone"""
    n = n or 50100 + rng.randrange(400)
    classes = ["UAObject", "UAVariable", "UAObjectType", "UAMethod"]
    out = ['<?xml version="1.0" encoding="utf-8"?>\n<UANodeSet xmlns="%s">\n<NamespaceUris><Uri>urn:big</Uri></NamespaceUris>\n<Aliases><Alias Alias="HasComponent">i=47</Alias><Alias Alias="Int32">i=6</Alias></Aliases>\n' % docs.NS_NODESET if hasattr(docs, "NS_NODESET") else
           '<?xml version="1.0" encoding="utf-8"?>\n<UANodeSet xmlns="http://opcfoundation.org/UA/2011/03/UANodeSet.xsd">\n<NamespaceUris><Uri>urn:big</Uri></NamespaceUris>\n<Aliases><Alias Alias="HasComponent">i=47</Alias><Alias Alias="Int32">i=6</Alias></Aliases>\n']
    want = {}
    salt = salt if salt is not None else rng.randrange(1000)
    for k in range(1, n + 1):
        cls = classes[(k + salt) % 4]; a = ""
        if cls == "UAVariable":
            a = ' DataType="%s"' % ("Int32" if k % 3 else "i=6")
            if k % 5 == 0: a += ' ValueRank="%d"' % (k % 3 - 1)
        if k % 7 == 0: a += ' SymbolicName="S%d"' % k
        if k % 11 == 0 and k > 1: a += ' ParentNodeId="ns=1;i=%d"' % (k - 1)
        ref = '<References><Reference ReferenceType="HasComponent" IsForward="false">ns=1;i=%d</Reference></References>' % (k // 2) if k > 1 else ""
        out.append('<%s NodeId="ns=1;i=%d" BrowseName="1:N%d"%s><DisplayName>D%d</DisplayName>%s</%s>\n' % (cls, k, k, a, k, ref, cls))
        want[k] = (cls, "N%d" % k, "D%d" % k, ("S%d" % k) if k % 7 == 0 else None, (k - 1) if (k % 11 == 0 and k > 1) else None, cls == "UAVariable", (k // 2) if k > 1 else None)
    out.append("</UANodeSet>\n")
    files = [("big.xml", "".join(out))]
    from opcua_tools.nodeset_parser import parse_xml_files
    os.makedirs(work, exist_ok=True)
    open(os.path.join(work, "big.xml"), "w", encoding="utf-8").write(files[0][1])
    ctx.record(dict(case="big-document", nodes=n), True, ["big-document"])
    try: raw = parse_xml_files([os.path.join(work, "big.xml")])
    except BaseException as e: ctx.fail("%s/big-document-raises" % prop, dict(kind="big", nodes=n, salt=salt), type(e).__name__); return
    nodes = raw["nodes"]; refs = raw["references"]
    bad = []
    if prop in ("C01", "C04"):
        if len(nodes) != n: bad.append("%d rows for %d node elements" % (len(nodes), n))
        seen = set()
        sym = nodes["SymbolicName"] if "SymbolicName" in nodes.columns else None
        for pos, (nid, cls, bn, dn) in enumerate(zip(nodes["NodeId"], nodes["NodeClass"], nodes["BrowseName"], nodes["DisplayName"])):
            k = int(nid.value); w = want.get(k)
            if w is None or k in seen or nid.namespace != 1: bad.append("unexpected or repeated NodeId %r" % (nid,)); break
            seen.add(k)
            s = None if sym is None or pd.isna(sym.iloc[pos]) else sym.iloc[pos]
            if (cls, bn, dn, s) != (w[0], w[1], w[2], w[3]): bad.append("row of %r carries %r" % (nid, (cls, bn, dn, s))); break
        if prop == "C01" and not bad:
            lk = raw["lookup_df"]["uniques"] if "lookup_df" in raw else None
            par = nodes["ParentNodeId"]; dt = nodes["DataType"]
            for pos, nid in enumerate(nodes["NodeId"]):
                k = int(nid.value); w = want[k]
                p_ = par.iloc[pos]; d_ = dt.iloc[pos]
                pv = None if pd.isna(p_) else int(lk.iloc[int(p_)].value) if lk is not None else None
                if (w[4] is None) != pd.isna(p_) or (w[4] is not None and lk is not None and pv != w[4]): bad.append("ParentNodeId of i=%d is %r" % (k, p_)); break
                if w[5] != (not pd.isna(d_)): bad.append("DataType of i=%d is %r" % (k, d_)); break
    if prop == "C02":
        lk = raw["lookup_df"]["uniques"]
        got = sorted((int(lk.iloc[int(s)].value), int(lk.iloc[int(t_)].value)) for s, t_ in zip(refs["Src"], refs["Trg"]))
        exp = sorted((k // 2, k) for k in range(2, n + 1))
        if got != exp: bad.append("%d reference rows for %d declared; first difference %r" % (len(got), len(exp), next(((a, b) for a, b in zip(got, exp) if a != b), None)))
    for b_ in bad[:1]:
        ctx.fail("%s/big-document" % prop, dict(kind="big", nodes=n, salt=salt), b_)

def run(ctx, prop):
    rng = ctx.rng
    work = os.path.join(vlib.WORK, "%s_%d" % (prop, os.getpid()))
    reqs = []; meta = []; treqs = []
    n_cases = {"quick": 45, "thorough": 900}[ctx.tier]
    try:
        for ci in range(n_cases):
            vlib.pandas_mode(ci)
            # the third and fourth case are medium-sized: 128..255 and 256+ distinct NodeIds in one parse (ids beyond the range of the narrow integer types)
            g, ds = make_case(rng, ctx.quick(), size={2: rng.randint(120, 200), 3: rng.randint(260, 300), 6: "split"}.get(ci), wide=True if ci == 4 else None, slash_twin=True if ci == 5 else None, fixed=ci in (0, 7), base_in_table=ci in (8, 9))
            files, lay = render_set(ds, rng)
            files_plain = files
            # every third document set is spelled with general entities of an internal DTD subset (same infoset; the model reads the plain spelling)
            if ci % 3 == 1: files = [(n, docs.entityfy(t, random.Random(ci * 131 + k))) for k, (n, t) in enumerate(files)]
            origs = originals_of(g, ds)
            vts = [n["value"] for _, d, _ in ds for n in d["nodes"] if n.get("value")]
            # caller-supplied namespace lists
            callers = [None]
            if prop in ("C03",) or rng.random() < 0.3:
                allu = [UA] + g.uris
                perm = g.uris[:]; rng.shuffle(perm)
                callers += [[UA] + perm, [UA] + perm[:1] + ["None"] + perm[1:], [UA] + perm + ["urn:unused"]]
                # partial lists (the unlisted URIs are appended by the parser) with one or several gaps
                callers += [[UA, "None", "None"] + perm[:1], [UA, "None"] + perm[-1:] + ["None"], [UA] + perm[:1] + ["None", "None", "urn:unused", "None"]]
            outs = []
            for caller in callers:
                out, res_ = parsecmp.impl_parse(work, files, caller)
                if prop == "C04" and out[0] == "ok":
                    for sig, detail in oracle_c04_denorm(res_): ctx.fail(sig, dict(kind="docset", seed=ctx.seed, case=ci, caller=caller, files=files), detail)
                reqs.append(parsecmp.model_request(work, [(n, d) for n, d, _ in ds], caller, vts)); meta.append(("in-domain", ci, caller, out, None))
                treqs.append(parsecmp.model_request_text(work, files_plain, caller, vts))
                outs.append((caller, out))
                feats = ["files=%d" % len(ds), "prefix=%s" % lay["prefix"], "caller" if caller else "no-caller"]
                nontriv = len(ds) > 1 and any(l[1:] != sorted(l[1:]) for _, _, l in ds) or bool(vts) or bool(caller)
                ctx.record(dict(case=ci, caller=caller, files=[n for n, _ in files]), nontriv, feats)
                if caller is None or all(u in caller for u in [UA] + g.uris):
                    fl = []
                    if prop == "C01": fl = oracle_c01(g, ds, out, origs)
                    elif prop == "C02": fl = oracle_c02(g, ds, out)
                    elif prop == "C03": fl = oracle_c03_single(g, ds, out, caller)
                    elif prop == "C04": fl = oracle_c04(out)
                    for sig, detail in fl:
                        ctx.fail(sig, dict(kind="docset", seed=ctx.seed, case=ci, caller=caller, files=files), detail)
                elif out[0] == "ok":
                    # a caller list that names only some of the URIs: files none of whose models is listed are left out (documented);
                    # the result denotes what parsing the remaining files without a list denotes
                    def listed(name, d):
                        if name.endswith("Opc.Ua.NodeSet2.xml"): return True
                        return any(v in caller for m in (d["models"] or []) for k, v in m["attrs"] if k == "ModelUri")
                    keep = [n for n, d, _ in ds if listed(n, d)]
                    if keep and all(d["models"] for _, d, _ in ds):
                        ref_out, _ = parsecmp.impl_parse(work + "_sub", [f for f in files if f[0] in keep], None)
                        shutil.rmtree(work + "_sub", ignore_errors=True)
                        if ref_out[0] == "ok":
                            d0 = denotation(ref_out); d1 = denotation(out)
                            if prop in ("C01", "C03") and d0[0] != d1[0]:
                                ctx.fail("%s/denotation-depends-on-caller-list" % prop, dict(kind="docset", seed=ctx.seed, case=ci, caller=caller, files=files), "node rows differ at URI level with the caller list %r" % (caller,))
                            if prop in ("C02", "C03") and d0[1] != d1[1]:
                                ctx.fail("%s/denotation-depends-on-caller-list" % prop, dict(kind="docset", seed=ctx.seed, case=ci, caller=caller, files=files), "reference triples differ at URI level with the caller list %r" % (caller,))
            # documents larger than the parser's internal batch: the batch is an argument of iterparse_xml (default 100000 events), so
            # the same documents are parsed again with a batch of a few dozen events and must give the same tables.
            # (A batch that closes without any node element in it makes the unchanged code raise AttributeError; with the real batch size
            # that needs ~50000 consecutive aliases, so such a run is skipped rather than judged.)
            if outs[0][1][0] == "ok":
                from opcua_tools import nodeset_parser as NP
                saved = NP.iterparse_xml.__defaults__
                try:
                    for b in rng.sample([24, 32, 41, 50, 64, 101], 2):
                        NP.iterparse_xml.__defaults__ = (b,)
                        outb, _ = parsecmp.impl_parse(work, files, None)
                        ctx.record(dict(case=ci, batch=b, files=[n for n, _ in files]), True, ["small-batch"])
                        if outb[0] == "err" and outb[1] == "AttributeError": continue
                        if outb != outs[0][1]:
                            ctx.fail("%s/depends-on-batch" % prop, dict(kind="docset-batch", batch=b, files=files), "with a batch of %d events the result differs: %s" % (b, parsecmp.diff(outb, outs[0][1])[:200]))
                finally:
                    NP.iterparse_xml.__defaults__ = saved
            # metamorphic variants for C03 (and C02): other serialisations of the same graph denote the same thing
            if prop in ("C02", "C03") and outs[0][1][0] == "ok":
                base = denotation(outs[0][1])
                for v in range(2):
                    ds2 = nsgen.serialise(g, rng, value_xml=value_xml, with_base=g.with_base, split=g.split)
                    files2, _ = render_set(ds2, rng)
                    caller = rng.choice([None, [UA] + g.uris[::-1]])
                    out2, _ = parsecmp.impl_parse(work, files2, caller)
                    reqs.append(parsecmp.model_request(work, [(n, d) for n, d, _ in ds2], caller, vts)); meta.append(("in-domain", ci, caller, out2, None))
                    treqs.append(parsecmp.model_request_text(work, files2, caller, vts))
                    ctx.record(dict(case=ci, variant=v, files=[n for n, _ in files2]), True, ["metamorphic"])
                    if out2[0] != "ok":
                        ctx.fail("%s/variant-raises" % prop, dict(kind="docset", files=files2, caller=caller), out2[1]); continue
                    d2 = denotation(out2)
                    if prop == "C03" and d2[0] != base[0] and sorted(r[:7] for r in d2[0]) != sorted(r[:7] for r in base[0]):
                        ctx.fail("C03/denotation-depends-on-serialisation", dict(kind="docset-pair", a=files, b=files2, caller=caller), "node rows differ at URI level")
                    if d2[1] != base[1]:
                        ctx.fail("%s/denotation-depends-on-serialisation" % prop, dict(kind="docset-pair", a=files, b=files2, caller=caller), "reference triples differ at URI level")
            # malformed stream
            if rng.random() < 0.5:
                dsm, kind = malformed(rng, ds)
                try: filesm = [(n, docs.render(d, rng, lay)) for n, d, _ in dsm]
                except Exception: continue
                outm, _ = parsecmp.impl_parse(work, filesm, None)
                try: rq = parsecmp.model_request(work, [(n, d) for n, d, _ in dsm], None, vts)
                except Exception: continue
                reqs.append(rq); meta.append(("out-of-domain", ci, None, outm, kind))
                treqs.append(parsecmp.model_request_text(work, filesm, None, vts))
                ctx.record(dict(case=ci, malformed=kind), True, ["malformed=" + kind])
    finally:
        shutil.rmtree(work, ignore_errors=True)
    if prop == "C01":
        try: batch_stream(ctx, work + "_batch", rng)
        finally: shutil.rmtree(work + "_batch", ignore_errors=True)
    if prop == "C03":
        try: dict_stream(ctx, work + "_dict", rng)
        finally: shutil.rmtree(work + "_dict", ignore_errors=True)
    if prop in ("C01", "C02", "C04"):
        try: big_document(ctx, prop, work + "_big", random.Random(ctx.seed * 7919 + 17))
        finally: shutil.rmtree(work + "_big", ignore_errors=True)
    ans = vlib.run_model(reqs, shards=12)
    for (stream, ci, caller, out, kind), a in zip(meta, ans):
        mo = parsecmp.dec_model(a)
        if mo[0] == "err" and mo[1] == "Unsupported": continue
        io = out if out[0] == "ok" else ["err"]; mm = mo if mo[0] == "ok" else ["err"]
        if io != mm:
            ctx.disagree(stream, dict(case=ci, caller=caller, malformed=kind), parsecmp.diff(out, mo), "see impl column")
    # the same document sets as BYTES: the model reads the rendered XML with its own reader (Xml.xparse, resolve, M_ParseText.doc_of_nxml)
    assert len(treqs) == len(reqs)
    tans = vlib.run_model(treqs, shards=12)
    n_text = 0; n_text_uns = 0
    for (stream, ci, caller, out, kind), a, ta in zip(meta, ans, tans):
        mt = parsecmp.dec_model(ta)
        if mt[0] == "err" and mt[1] == "Unsupported": n_text_uns += 1; continue
        n_text += 1
        io = out if out[0] == "ok" else ["err"]; mm = mt if mt[0] == "ok" else ["err"]
        if io != mm: ctx.disagree(stream if stream != "in-domain" else "in-domain-text", dict(case=ci, caller=caller, malformed=kind), parsecmp.diff(out, mt), "model on the file bytes; see impl column")
        ma = parsecmp.dec_model(a)
        if stream == "in-domain" and ma[0] == "ok" and mt != ma: ctx.disagree("reader", dict(case=ci, caller=caller), "model on bytes: %s" % parsecmp.diff(mt, ma), "model on the element structure")
    ctx.notes["document_sets_parsed_by_the_model_from_bytes"] = "%d (reader unsupported: %d)" % (n_text, n_text_uns)
    pick = [i for i in range(len(reqs)) if len(vlib.to_sx(reqs[i])) < 6000][:12 if ctx.quick() else 40]
    ctx.crosscheck = vlib.coq_crosscheck([reqs[i] for i in pick], [ans[i] for i in pick], prop.lower())

TRUSTED = ["hand-written Gallina model coq/M_Parse.v of parse_xml_files and everything below it (extend_namespace_map, alias tables, parse_node_attrib, findrefs, get_attrib_df casts, "
           "browse-name split, per-file and global de-duplication, normalize_wrt_nodeid); lxml is not modelled: the model reads the SAME FILE BYTES as the implementation with its own XML reader "
           "(coq/Xml.v xparse + resolve, coq/M_ParseText.v doc_of_nxml: no comments, CDATA, DOCTYPE or entity definitions) and, as a cross-check of that reader, also the element structure the harness rendered the text from",
           "pandas concat/explode/drop_duplicates/factorize are modelled as list operations (Table.v); dtype conversions as integer wrap-around",
           "extraction + driver.ml, cross-checked against vm_compute on a sample"]
RULE = ("document sets are serialisations of random abstract graphs (1-3 namespaces plus a base document, eight node classes, four identifier types, hostile names and texts, "
        "typed values, references placed on source/target/both, forward/inverse, alias/literal) rendered in random layouts (default namespace vs prefix, indentation, attribute "
        "order, shuffled NamespaceUris, random file names), with and without caller namespace lists, plus one malformed variant per second case. Distinct by SHA-256; non-trivial "
        "when several files with permuted URI tables, values or a caller list are involved.")


NODE_CLASSES = ["UAObjectType", "UAObject", "UAVariableType", "UAVariable", "UADataType", "UAReferenceType", "UAView", "UAMethod"]
def batch_stream(ctx, work, rng):
    """the event loop of iterparse_xml against coq/M_Iter.v: the same start/end events (delivered by lxml for the same file and the same tag filter) are
    given to the model, and the sizes of the batches the implementation hands to process_elem_batch are compared with the model's, for several batch sizes"""
    import lxml.etree as ET
    from opcua_tools import nodeset_parser as NP
    uax = "{http://opcfoundation.org/UA/2011/03/UANodeSet.xsd}"
    tags = [uax + t for t in ["UANodeSet"] + NODE_CLASSES + ["NamespaceUris", "Uri", "Model", "RequiredModel", "Alias"]]
    reqs = []; meta = []
    for ci in range(6 if ctx.quick() else 60):
        g, ds = make_case(rng, True, size=rng.randint(40, 70) if ci == 0 else None)
        files, _ = render_set(ds, rng)
        shutil.rmtree(work, ignore_errors=True); os.makedirs(work)
        for n, t in files:
            pth = os.path.join(work, n); open(pth, "w", encoding="utf-8").write(t)
            try: evs = [[e == "end", "node" if ET.QName(el).localname in NODE_CLASSES else ET.QName(el).localname] for e, el in ET.iterparse(pth, events=("start", "end"), tag=tags)]
            except ET.XMLSyntaxError: continue
            # counted events up to the end of the first node: a batch size below that would make the first batch empty, which process_elem_batch does not survive
            counted = 0; first = None
            for is_end, k in evs:
                if k == "Model" or (k == "RequiredModel" and not is_end): continue
                counted += 1
                if k == "node" and is_end: first = counted; break
            if first is None: continue
            for bs in sorted({first, first + 1, first + 2, first + 5, 2 * first + 3, max(32, first), 100000}):
                calls = []; orig = NP.process_elem_batch
                def wrap(elems, *a, **k_):
                    calls.append(len(elems)); return orig(elems, *a, **k_)
                NP.process_elem_batch = wrap
                try:
                    try: r = NP.iterparse_xml(pth, [UA] + list(g.uris), bs); out = ["ok", list(calls), len(r["nodes"])]
                    except BaseException as e: out = ["err", type(e).__name__]
                finally: NP.process_elem_batch = orig
                reqs.append([Sym("iter_batches"), bs, evs]); meta.append((ci, n, bs, out, sum(1 for is_end, k in evs if k == "node" and is_end)))
                ctx.record(dict(kind="batches", case=ci, file=n, batch=bs, events=len(evs)), bs < len(evs), ["batches", "cut" if bs < len(evs) else "single-batch"])
    ans = vlib.run_model(reqs)
    for (ci, n, bs, out, n_nodes), a in zip(meta, ans):
        mo = [int(x) for x in vlib.untext(a)]
        if out[0] != "ok": ctx.disagree("batches", dict(case=ci, file=n, batch=bs), out, ["ok", mo]); continue
        if out[1] != mo: ctx.disagree("batches", dict(case=ci, file=n, batch=bs), out[1], mo)
        if sum(out[1]) != n_nodes or out[2] != n_nodes:
            ctx.fail("C01/batches", dict(kind="batches", file=n, batch=bs), "%d node elements, batches of %r, %d rows" % (n_nodes, out[1], out[2]))

def dict_graph_fails(work, files, items):
    """UAGraph.from_file_list / from_path with the caller's table given as a dictionary whose entries were inserted in the order of `items`:
    every entry keeps its index, index 0 is the OPC UA namespace, and the identifiers denote what a parse with the equivalent list denotes"""
    from opcua_tools.ua_graph import UAGraph
    d = {}
    for k, u in items: d[int(k)] = u
    want_list = [d.get(i, "None") for i in range(max(d) + 1)]
    shutil.rmtree(work, ignore_errors=True); os.makedirs(work)
    paths = []
    for n, t in files:
        pth = os.path.join(work, n); open(pth, "w", encoding="utf-8").write(t); paths.append(pth)
    ref, _ = parsecmp.impl_parse(work + "_ref", files, want_list)
    shutil.rmtree(work + "_ref", ignore_errors=True)
    fails = []
    try: UAGraph.from_file_list(list(paths))
    except BaseException: return []              # not a document set a graph can be built from at all (C11's subject)
    for how, build in (("from_file_list", lambda: UAGraph.from_file_list(list(paths), namespace_dict=dict(d))), ("from_path", lambda: UAGraph.from_path(work, namespace_dict=dict(d)))):
        try: G = build()
        except BaseException as e:
            if ref[0] == "ok": fails.append(("C03/caller-dict", "%s raised %s although parse_xml_files with the list %r succeeds" % (how, type(e).__name__, want_list)))
            continue
        ns = list(G.namespaces)
        wrong = [(k, u, ns[k] if k < len(ns) else None) for k, u in sorted(d.items()) if k >= len(ns) or ns[k] != u]
        if wrong: fails.append(("C03/caller-dict", "%s: table %r (entries inserted in the order %r) gives namespaces %r" % (how, d, [k for k, _ in items], ns)))
        elif ref[0] == "ok" and ns != ref[1][0]: fails.append(("C03/caller-dict", "%s: namespaces %r, parse_xml_files with the equivalent list gives %r" % (how, ns, ref[1][0])))
    return fails

def dict_stream(ctx, work, rng):
    """the caller's table as a dictionary (UAGraph._get_namespace_list): the list it becomes, against the model, and graphs built with it"""
    from opcua_tools.ua_graph import UAGraph
    pool = ["urn:test:ns0", "urn:test:ns1", "http://example.org/UA/2/", "urn:unused", "urn:other"]
    dicts = []
    # dense tables inserted in descending and in rotated order first, then tables with gaps, then random ones
    dicts += [[(2, pool[1]), (1, pool[0]), (0, UA)], [(1, pool[0]), (2, pool[1]), (0, UA)], [(0, UA), (2, pool[1]), (1, pool[0])], [(3, pool[2]), (0, UA), (7, pool[0])], [(0, UA)], [(5, pool[3])]]
    for _ in range(40 if ctx.quick() else 600):
        keys = rng.sample(range(0, 9), rng.randint(1, 6))
        if rng.random() < 0.5: keys = list(range(len(keys)))          # dense
        rng.shuffle(keys)
        dicts.append([(k, UA if k == 0 and rng.random() < 0.8 else rng.choice(pool)) for k in keys])
    reqs = []; outs = []
    for items in dicts:
        d = {}
        for k, u in items: d[k] = u
        try: out = ["ok", list(UAGraph._get_namespace_list(d))]
        except BaseException as e: out = ["err", type(e).__name__]
        want = [d.get(i, "None") for i in range(max(d) + 1)]
        reqs.append([Sym("ns_list_of_dict"), [[k, u] for k, u in items]]); outs.append((items, out))
        ctx.record(dict(kind="caller-dict", items=items), len(items) > 1 and [k for k, _ in items] != sorted(k for k, _ in items), ["caller-dict", "dense" if sorted(d) == list(range(len(d))) else "gaps"])
        if out != ["ok", want]: ctx.fail("C03/caller-dict", dict(kind="caller-dict-list", items=[list(x) for x in items]), "_get_namespace_list(%r) = %r, the table says %r" % (d, out, want))
    ans = vlib.run_model(reqs)
    for (items, out), a in zip(outs, ans):
        mo = ["ok", vlib.untext(a)]
        if out != mo: ctx.disagree("caller-dict", dict(items=items), out, mo)
    # graphs built with such tables
    for gi in range(3 if ctx.quick() else 25):
        g = nsgen.gen_graph(rng, n_ns=rng.randint(1, 3), n_nodes=rng.randint(3, 6), hostile=False, dangling=False, value_gen=value_gen)
        ds = nsgen.serialise(g, rng, value_xml=value_xml, aliases=rng.random() < 0.5)
        files, _ = render_set(ds, rng)
        uris = [UA] + [u for u in g.uris if any(k[0] == u for k in g.order)]
        for variant in range(3):
            keys = list(range(len(uris)))
            if variant == 1: keys = [k * 2 for k in keys]                 # gaps
            items = list(zip(keys, uris))
            if variant == 2: items = items[1:] + items[:1]               # dense, the OPC UA entry inserted last
            else: items = items[::-1]                                     # descending insertion order
            ctx.record(dict(kind="caller-dict-graph", case=gi, items=items), True, ["caller-dict", "graph"])
            for sig, detail in dict_graph_fails(work, files, items): ctx.fail(sig, dict(kind="caller-dict-graph", files=files, items=[list(x) for x in items]), detail)

def oracle_case(case):
    """replay of a stored document set"""
    work = os.path.join(vlib.WORK, "replay_%d" % os.getpid())
    try:
        if case.get("kind") == "caller-dict-list":
            from opcua_tools.ua_graph import UAGraph
            d = {}
            for k, u in case["items"]: d[int(k)] = u
            want = [d.get(i, "None") for i in range(max(d) + 1)]
            try: out = list(UAGraph._get_namespace_list(d))
            except BaseException as e: out = type(e).__name__
            return [] if out == want else [("C03/caller-dict", "_get_namespace_list(%r) = %r" % (d, out))]
        if case.get("kind") == "caller-dict-graph":
            return dict_graph_fails(work, [tuple(f) for f in case["files"]], [tuple(x) for x in case["items"]])
        if case.get("kind") == "big":
            c = _Collect(); prop = case.get("prop", "C01")
            for pr in ("C01", "C02"): big_document(c, pr, work, None, case["nodes"], case["salt"])
            return c.fails
        if case.get("kind") == "docset-batch":
            from opcua_tools import nodeset_parser as NP
            files = [tuple(f) for f in case["files"]]
            ref, _ = parsecmp.impl_parse(work, files, None)
            saved = NP.iterparse_xml.__defaults__
            try:
                NP.iterparse_xml.__defaults__ = (case["batch"],)
                outb, _ = parsecmp.impl_parse(work, files, None)
            finally: NP.iterparse_xml.__defaults__ = saved
            return [] if outb == ref else [("depends-on-batch", "with a batch of %d events the result differs" % case["batch"])]
        if case.get("kind") == "xml":
            out, res = parsecmp.impl_parse(work, [tuple(f) for f in case["files"]], case.get("caller"))
            if out[0] != "ok": return [("C01/parse-raises", out[1])]
            chk = case.get("check")
            if chk == "browsename":
                return [("C01/browsename-second-colon", "BrowseName 1:Var:colon reported as %r" % out[1][1][0][2])] if out[1][1][0][2] != "Var:colon" else []
            if chk == "accesslevel":
                a = dict(out[1][1][0][6]).get("AccessLevel")
                return [("C01/attribute-int-wrapped", "AccessLevel=255 reported as %r" % (a,))] if a != ["i", "255"] else []
            if chk == "sampling":
                a = dict(out[1][1][0][6]).get("MinimumSamplingInterval")
                return [("C01/attribute-int-wrapped", "MinimumSamplingInterval=3000000000 reported as %r" % (a,))] if a != ["i", "3000000000"] else []
            if chk == "duplicates":
                t = [tuple(map(tuple, x)) for x in out[1][2]]
                return [("C02/duplicated", "%d rows for %d distinct triples" % (len(t), len(set(t))))] if len(t) != len(set(t)) else []
        return []
    finally:
        shutil.rmtree(work, ignore_errors=True)
