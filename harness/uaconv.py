"""Conversions between Python UA values / lxml elements and the model's wire format."""
import math, datetime
import pandas as pd
import lxml.etree as ET
from vlib import Sym, untext

TYPES_NS = "http://opcfoundation.org/UA/2008/02/Types.xsd"

def isna(x):
    return x is None or x is pd.NA or (isinstance(x, float) and math.isnan(x))
def opt(x): return [] if isna(x) else [x]
def frepr(x): return repr(float(x))

def py2sx(v):
    """Python UA value -> model uav (sexp as python lists)"""
    from opcua_tools import ua_data_types as T
    if v is None: return [Sym("none")]
    if isinstance(v, T.UAEnumeration): return [Sym("enum"), opt(v.value), v.string, v.name]
    if isinstance(v, T.UABoolean): return [Sym("bool"), [] if isna(v.value) else [bool(v.value)]]
    for cls, k in ((T.UASByte, "SByte"), (T.UAByte, "Byte"), (T.UAInt16, "Int16"), (T.UAUInt16, "UInt16"), (T.UAInt32, "Int32"),
                   (T.UAUInt32, "UInt32"), (T.UAInt64, "Int64"), (T.UAUInt64, "UInt64")):
        if type(v) is cls: return [Sym("int"), k, opt(v.value)]
    if isinstance(v, T.UAFloatingPoint):
        return [Sym("float"), isinstance(v, T.UADouble), [] if v.value is pd.NA or v.value is None else [frepr(v.value)]]
    if isinstance(v, T.UAGuid): return [Sym("guid"), opt(v.value)]
    if type(v) is T.UAString: return [Sym("string"), opt(v.value)]
    if isinstance(v, T.UADateTime):
        d = v.value; off = d.utcoffset()
        return [Sym("datetime"), [d.year, d.month, d.day, d.hour, d.minute, d.second, d.microsecond, [] if off is None else [int(off.total_seconds() // 60)]]]
    if isinstance(v, T.UAByteString): return [Sym("bytes"), [] if isna(v.value) else [bytes(v.value)]]
    if isinstance(v, T.UANodeId): return [Sym("nodeid"), [v.namespace, v.nodeid_type.value, str(v.value)]]
    if isinstance(v, T.UALocalizedText): return [Sym("loctext"), opt(v.text), opt(v.locale)]
    if isinstance(v, T.UAEngineeringUnits):
        e = v.ua_eu_information
        return [Sym("eu"), e.namespace_uri, e.unit_id, opt(e.display_name.text), opt(e.display_name.locale), opt(e.description.text), opt(e.description.locale)]
    if isinstance(v, T.UAEURange): return [Sym("range"), frepr(v.ua_range.low), frepr(v.ua_range.high)]
    if isinstance(v, T.UAExtensionObject): return [Sym("ext"), [v.type_nodeid.namespace, v.type_nodeid.nodeid_type.value, str(v.type_nodeid.value)], py2sx(v.body)]
    if isinstance(v, T.UAXMLElement): return [Sym("xmlraw"), v.value]
    if isinstance(v, T.UAListOf): return [Sym("list"), v.typename, [py2sx(x) for x in v.value]]
    raise TypeError("py2sx: %r" % (v,))

def el2sx(el):
    """lxml element -> model nxml (namespace, local name, attributes, text, children); comments/PIs are skipped"""
    q = ET.QName(el)
    return [q.namespace or "", q.localname, [[k, v] for k, v in el.attrib.items()], [] if el.text is None else [el.text],
            [el2sx(c) for c in el if isinstance(c.tag, str)]]

def py2canon(v):
    """decoded Python value -> the shape the model's decode result has (XML elements as infosets)"""
    from opcua_tools import ua_data_types as T
    if isinstance(v, T.UAXMLElement):
        try: return ["xmltree", canon_tree(el2sx(ET.fromstring(v.value)))]
        except Exception: return ["xmlraw", v.value]
    if isinstance(v, T.UAExtensionObject):
        return ["ext", [str(v.type_nodeid.namespace), v.type_nodeid.nodeid_type.value, str(v.type_nodeid.value)], py2canon(v.body)]
    if isinstance(v, T.UAListOf): return ["list", v.typename, [py2canon(x) for x in v.value]]
    return canon_sx(py2sx(v))

def canon_sx(x):
    """python-side sexp (ints, bools, bytes, Sym) -> the all-strings form that untext(model answer) has"""
    if isinstance(x, bool): return "true" if x else "false"
    if isinstance(x, int): return str(x)
    if isinstance(x, (bytes, bytearray)): return bytes(x).decode("utf-8", "surrogateescape")
    if isinstance(x, str): return str(x)
    return [canon_sx(y) for y in x]
def canon_tree(t): return canon_sx(t)

def float_table(texts):
    """the external float() function as a table for the model: text -> repr(float(text)) or error"""
    E = []
    seen = set()
    for t in texts:
        if t in seen: continue
        seen.add(t)
        try: E.append([t, [frepr(float(t))]])
        except (ValueError, OverflowError): E.append([t, []])
    return E
def gt_entries(reprs):
    out = []
    for a in reprs:
        for b in reprs:
            if float(a) > float(b): out.append(["gt:%s:%s" % (a, b), ["1"]])
    return out
def texts_of_xml(text):
    """every stripped element text of a fragment (candidates for float())"""
    out = []
    try:
        root = ET.fromstring(text)
    except Exception:
        return out
    for el in root.iter():
        if el.text is not None: out.append(el.text.strip())
    return out

def py2sx_tree(v):
    """like py2sx, but raw XML elements are given as infosets (what the parser produced them from)"""
    from opcua_tools import ua_data_types as T
    if isinstance(v, T.UAXMLElement):
        try: return [Sym("xmltree"), el2sx(ET.fromstring(v.value))]
        except Exception: return [Sym("xmlraw"), v.value]
    if isinstance(v, T.UAExtensionObject): return [Sym("ext"), [v.type_nodeid.namespace, v.type_nodeid.nodeid_type.value, str(v.type_nodeid.value)], py2sx_tree(v.body)]
    if isinstance(v, T.UAListOf): return [Sym("list"), v.typename, [py2sx_tree(x) for x in v.value]]
    return py2sx(v)
