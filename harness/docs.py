"""NodeSet2 document ASTs, a renderer with layout variations, and random generators."""
import random
import re as _re
UA = "http://opcfoundation.org/UA/"
NS_NODESET = "http://opcfoundation.org/UA/2011/03/UANodeSet.xsd"
NS_TYPES = "http://opcfoundation.org/UA/2008/02/Types.xsd"
CLASSES = ["UAObject", "UAVariable", "UAMethod", "UAView", "UAObjectType", "UAVariableType", "UADataType", "UAReferenceType"]

def esc_text(s): return s.replace("&", "&amp;").replace("<", "&lt;").replace(">", "&gt;")
def esc_attr(s): return esc_text(s).replace('"', "&quot;").replace("\n", "&#10;").replace("\t", "&#9;").replace("\r", "&#13;")

def render(doc, rng=None, layout=None):
    """doc -> XML text.  layout: dict(prefix: None|str, indent: bool, attr_blank: bool)"""
    rng = rng or random.Random(0)
    layout = layout or {}
    pfx = layout.get("prefix")
    indent = layout.get("indent", True)
    def T(name): return (pfx + ":" + name) if pfx else name
    nl = "\n" if indent else ""
    def pad(n): return ("  " * n) if indent else ""
    def attrs(l):
        sep = "  " if layout.get("attr_blank") else " "
        return "".join('%s%s="%s"' % (sep, k, esc_attr(v)) for k, v in l)
    out = ['<?xml version="1.0" encoding="utf-8"?>' + nl]
    xmlns = ('xmlns:%s="%s"' % (pfx, NS_NODESET)) if pfx else ('xmlns="%s"' % NS_NODESET)
    out.append('<%s %s xmlns:uax="%s" xmlns:xsi="http://www.w3.org/2001/XMLSchema-instance"%s>%s' % (T("UANodeSet"), xmlns, NS_TYPES, attrs(doc.get("root_attrs", [])), nl))
    if doc.get("uris") is not None:
        out.append(pad(1) + "<%s>%s" % (T("NamespaceUris"), nl))
        for u in doc["uris"]: out.append(pad(2) + "<%s>%s</%s>%s" % (T("Uri"), esc_text(u), T("Uri"), nl))
        out.append(pad(1) + "</%s>%s" % (T("NamespaceUris"), nl))
    if doc.get("models") is not None:
        out.append(pad(1) + "<%s>%s" % (T("Models"), nl))
        for m in doc["models"]:
            if m.get("required"):
                out.append(pad(2) + "<%s%s>%s" % (T("Model"), attrs(m["attrs"]), nl))
                for r in m["required"]: out.append(pad(3) + "<%s%s />%s" % (T("RequiredModel"), attrs(r), nl))
                out.append(pad(2) + "</%s>%s" % (T("Model"), nl))
            else:
                out.append(pad(2) + "<%s%s />%s" % (T("Model"), attrs(m["attrs"]), nl))
        out.append(pad(1) + "</%s>%s" % (T("Models"), nl))
    if doc.get("aliases") is not None:
        out.append(pad(1) + "<%s>%s" % (T("Aliases"), nl))
        for a, t in doc["aliases"]: out.append(pad(2) + '<%s Alias="%s">%s</%s>%s' % (T("Alias"), esc_attr(a), esc_text(t), T("Alias"), nl))
        out.append(pad(1) + "</%s>%s" % (T("Aliases"), nl))
    for n in doc.get("nodes", []):
        out.append(pad(1) + "<%s%s>%s" % (T(n["cls"]), attrs(n["attrs"]), nl))
        for d in n.get("display") or []: out.append(pad(2) + "<%s>%s</%s>%s" % (T("DisplayName"), esc_text(d), T("DisplayName"), nl))
        if n.get("desc") is not None: out.append(pad(2) + "<%s>%s</%s>%s" % (T("Description"), esc_text(n["desc"]), T("Description"), nl))
        if n.get("refs") is not None:
            out.append(pad(2) + "<%s>%s" % (T("References"), nl))
            for ty, fwd, trg in n["refs"]:
                a = [("ReferenceType", ty)] + ([("IsForward", fwd)] if fwd is not None else [])
                out.append(pad(3) + "<%s%s>%s</%s>%s" % (T("Reference"), attrs(a), esc_text(trg), T("Reference"), nl))
            out.append(pad(2) + "</%s>%s" % (T("References"), nl))
        if n.get("value") is not None:
            out.append(pad(2) + "<%s>%s</%s>%s" % (T("Value"), n["value"], T("Value"), nl))
        if n.get("extensions"):
            x_ = n["extensions"]
            if pfx: x_ = _re.sub(r"<(/?)([A-Za-z])", lambda m: "<%s%s:%s" % (m.group(1), pfx, m.group(2)), x_)
            out.append(pad(2) + x_ + nl)
        out.append(pad(1) + "</%s>%s" % (T(n["cls"]), nl))
    out.append("</%s>%s" % (T("UANodeSet"), nl))
    return "".join(out)

def simple_doc(rng, uri, extra_uris=(), n_nodes=3, with_models=True, with_aliases=True, with_uris=True, bad=None):
    """a small closed document in namespace `uri` (local index 1).  bad: None | 'alias' | 'nodeid' | 'xml' """
    uris = [uri] + list(extra_uris)
    aliases = [("HasComponent", "i=47"), ("Organizes", "i=35"), ("Int32", "i=6")]
    if bad == "alias": aliases.insert(rng.randint(0, len(aliases)), ("Broken", "not a nodeid"))
    nodes = []
    for i in range(n_nodes):
        nid = "ns=1;i=%d" % (1000 + i)
        if bad == "nodeid" and i == n_nodes - 1: nid = "ns=1;q=%d" % i
        refs = [("HasComponent" if with_aliases else "i=47", "false", "ns=1;i=%d" % (1000 + rng.randrange(i)))] if i > 0 else []
        nodes.append(dict(cls=rng.choice(["UAObject", "UAVariable"]), attrs=[("NodeId", nid), ("BrowseName", "1:N%d" % i)],
                          display=["N%d" % i], desc=None, refs=refs, value=None))
    d = dict(uris=uris if with_uris else None,
             models=[dict(attrs=[("ModelUri", uri), ("Version", "1.0.%d" % rng.randint(0, 9)), ("PublicationDate", "2020-01-01T00:00:00Z")],
                          required=[[("ModelUri", UA), ("Version", "1.04"), ("PublicationDate", "2019-01-01T00:00:00Z")]])] if with_models else None,
             aliases=aliases if with_aliases else None, nodes=nodes)
    return d


import re as _re
def entityfy(text, rng, max_refs=6):
    """the same document spelled with general entities declared in its own internal DTD subset (same infoset; a reader must expand them).
    Only element TEXT without any other reference is touched; returns the text unchanged when nothing suitable is found."""
    if "<!DOCTYPE" in text or not text.startswith("<?xml"): return text
    segs = list(_re.finditer(r">([^<>&]+)<", text))
    cands = [m for m in segs if m.group(1).strip()]
    if not cands: return text
    rng.shuffle(cands)
    ents = {}; repl = []
    for m in cands[:max_refs]:
        body = m.group(1); core = body.strip()
        # a piece of the text: the whole of it, its head, its middle or its tail
        a = rng.randrange(len(core)); b = rng.randint(a + 1, len(core))
        if rng.random() < 0.3: a, b = 0, len(core)
        piece = core[a:b]
        if not piece or '"' in piece or "%" in piece: continue
        name = ents.setdefault(piece, "e%d" % len(ents))
        off = m.start(1) + body.index(core)
        repl.append((off + a, off + b, "&%s;" % name))
    if not repl: return text
    out = text
    for a, b, r in sorted(repl, reverse=True): out = out[:a] + r + out[b:]
    decl = "<!DOCTYPE UANodeSet [" + "".join('<!ENTITY %s "%s">' % (n, p) for p, n in ents.items()) + "]>"
    i = out.index("?>") + 2
    return out[:i] + "\n" + decl + out[i:]
