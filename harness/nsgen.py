"""Abstract OPC UA graphs and their serialisation into NodeSet2 documents (many serialisations per graph)."""
import random
import docs
from docs import UA

TEXTS = ["Motor", "Tank 1", "a<b", "x&y", "q\"uote", "it's", "é", "😀", " lead", "trail ", "a:b", "a;b=c", "ns=1", "", "multi\nline", "tab\there", "<![CDATA[", "]]>", "lim[i[0]]>max", "a > b", "&amp;", "47 k\u2126", "e\u0301te\u0301", "\u212bngstr\u00f6m"]
# characters that Unicode normalisation would rewrite (OHM SIGN, KELVIN SIGN, ANGSTROM SIGN, a letter followed by a combining accent) and the composed
# letter one of them would become: harmless in XML, so they also go into the names and identifiers of graphs without hostile text
NONNFC = ["\u2126", "\u212a", "\u212b", "e\u0301", "\u00c5"]
# texts every hostile graph carries somewhere (markup that an escaping shortcut would let through)
MUST = ["idx[a[0]]>b", "a<b&c>d", "q\"uote's", "<![CDATA[x]]>"]
NAMES = ["Motor", "Tank", "Level", "a<b", "x&y", "é", "n s", "semi;colon", "eq=ual", "q\"uote", "Var:colon"]
ATTRS_BY_CLASS = {
    "UAObject": ["EventNotifier", "SymbolicName", "ParentNodeId", "ReleaseStatus"],
    "UAVariable": ["DataType", "ValueRank", "AccessLevel", "UserAccessLevel", "ArrayDimensions", "MinimumSamplingInterval", "Historizing", "ParentNodeId", "SymbolicName"],
    "UAMethod": ["MethodDeclarationId", "ParentNodeId", "SymbolicName"],
    "UAView": ["EventNotifier"],
    "UAObjectType": ["IsAbstract", "SymbolicName"],
    "UAVariableType": ["IsAbstract", "DataType", "ValueRank", "ArrayDimensions"],
    "UADataType": ["IsAbstract", "SymbolicName"],
    "UAReferenceType": ["IsAbstract", "Symmetric", "SymbolicName"],
}

class Graph:
    """uris: non-base namespace URIs; nodes: dict key -> node; refs: list of (src key, trg key, type key)
       a key is (uri, idtype, ident); node = dict(cls, bname=(uri, name), display, desc, attrs (dict name -> str or key), value)"""
    def __init__(self): self.uris = []; self.nodes = {}; self.refs = []; self.order = []; self.models = {}

def rident(rng, t, i):
    if t == "i": return str(1000 + i)
    if t == "g": return "%08x-0000-0000-0000-%012x" % (i, rng.getrandbits(40))
    if t == "b": return "QUJD" + str(i)
    return rng.choice(["Node%d" % i, "n s%d" % i, "a;b=%d" % i, "é%d" % i, "x%d=ns" % i, "weird<&>%d" % i, "k[[%d]]>" % i, "P&V%d" % i, "<t%d>" % i, "a&amp;b%d" % i]) if rng.random() < 0.6 else "S%d" % i

BASE_TYPES = [("i", "45", "UAReferenceType", "HasSubtype"), ("i", "47", "UAReferenceType", "HasComponent"), ("i", "35", "UAReferenceType", "Organizes"),
              ("i", "40", "UAReferenceType", "HasTypeDefinition"), ("i", "46", "UAReferenceType", "HasProperty"), ("i", "37", "UAReferenceType", "HasModellingRule"),
              ("i", "33", "UAReferenceType", "HierarchicalReferences"), ("i", "32", "UAReferenceType", "NonHierarchicalReferences"), ("i", "31", "UAReferenceType", "References"),
              ("i", "6", "UADataType", "Int32"), ("i", "12", "UADataType", "String"), ("i", "1", "UADataType", "Boolean"), ("i", "11", "UADataType", "Double"),
              ("i", "24", "UADataType", "BaseDataType"), ("i", "58", "UAObjectType", "BaseObjectType"), ("i", "63", "UAVariableType", "BaseDataVariableType"),
              ("i", "78", "UAObject", "Mandatory"), ("i", "85", "UAObject", "Objects"), ("i", "21", "UADataType", "LocalizedText")]

def gen_graph(rng, n_ns=2, n_nodes=6, hostile=True, with_values=True, dangling=True, closed_base=True, value_gen=None, slash_twin=None):
    g = Graph()
    g.uris = ["urn:test:ns%d" % i if rng.random() < 0.7 else "http://example.org/UA/%d/" % i for i in range(n_ns)]
    r_twin = rng.random()
    if n_ns >= 2 and (slash_twin if slash_twin is not None else r_twin < 0.2):      # two namespaces whose URIs differ only in a final slash (URIs are opaque: they are different namespaces)
        g.uris[1] = g.uris[0][:-1] if g.uris[0].endswith("/") else g.uris[0] + "/"
        if n_ns >= 3: g.uris[2] = g.uris[0].swapcase()          # ... and a third that differs in letter case only
    # base namespace nodes (always defined in the base document)
    for t, ident, cls, name in BASE_TYPES:
        k = (UA, t, ident)
        g.nodes[k] = dict(cls=cls, bname=(UA, name), display=name, desc=None, attrs={}, value=None); g.order.append(k)
    reftypes = [k for k in g.nodes if g.nodes[k]["cls"] == "UAReferenceType"]
    datatypes = [k for k in g.nodes if g.nodes[k]["cls"] == "UADataType"]
    # hierarchy among base reference types so that closure queries work
    R = lambda s, t, ty: g.refs.append((s, t, ty))
    sub = (UA, "i", "45")
    for child, parent in [("33", "31"), ("32", "31"), ("47", "33"), ("35", "33"), ("46", "33"), ("45", "33"), ("40", "32"), ("37", "32")]:
        R((UA, "i", parent), (UA, "i", child), sub)
    keys = []
    for i in range(n_nodes):
        uri = rng.choice(g.uris); t = rng.choice("iiissgb")
        k = (uri, t, rident(rng, t, i) if hostile else (str(1000 + i) if t == "i" else "S%d" % i + (rng.choice(NONNFC) if t == "s" and rng.random() < 0.25 else "")))
        if keys and rng.random() < 0.12:
            # a twin: the identifier text of an earlier node of the same namespace under another identifier type (i=5001 and s=5001, s=X and g=X are different nodes)
            pu, pt, pid = rng.choice(keys)
            k = (pu, rng.choice([x for x in ("s", "g", "b") + (("i",) if pid.isdigit() and not pid.startswith("0") else ()) if x != pt]), pid); uri = pu
        if k in g.nodes: continue
        cls = rng.choice(docs.CLASSES)
        name = rng.choice(NAMES) if hostile else "N%d" % i + (rng.choice(NONNFC) if rng.random() < 0.25 else "")
        bn_uri = rng.choice([uri, uri, UA] + g.uris)
        attrs = {}
        for a in ATTRS_BY_CLASS[cls]:
            if rng.random() < 0.45:
                if a == "DataType": attrs[a] = rng.choice(datatypes)
                elif a in ("ParentNodeId", "MethodDeclarationId"):
                    attrs[a] = rng.choice(keys) if keys else (UA, "i", "85")
                    if dangling and rng.random() < 0.15: attrs[a] = (rng.choice(g.uris + [UA]), "i", str(9000 + rng.randint(0, 5)))     # a node no document defines
                elif a in ("IsAbstract", "Symmetric", "Historizing"): attrs[a] = rng.choice(["true", "false", "true", "false", "1"])     # "1" is the other xs:boolean spelling of true
                elif a == "ValueRank": attrs[a] = str(rng.choice([-3, -2, -1, 0, 1, 2, 3, 127, 128, 1000]))
                elif a == "EventNotifier": attrs[a] = str(rng.choice([0, 1, 4, 5, 127, 128, 255]))
                elif a in ("AccessLevel", "UserAccessLevel"): attrs[a] = str(rng.choice([0, 1, 3, 5, 127, 128, 255, 256, 65535, 4294967295]))
                elif a == "MinimumSamplingInterval": attrs[a] = str(rng.choice([-1, 0, 100, 1000]))
                elif a == "ArrayDimensions": attrs[a] = rng.choice(["1", "2,3", "0"])
                elif a == "SymbolicName": attrs[a] = rng.choice(["Sym_1", "Name", "a b" if hostile else "Sym"])
                elif a == "ReleaseStatus": attrs[a] = rng.choice(["Draft", "Deprecated"])
        value = None
        if with_values and cls in ("UAVariable", "UAVariableType") and rng.random() < 0.6 and value_gen: value = value_gen(rng)
        desc = rng.choice([None, None] + TEXTS) if hostile else None
        disp = rng.choice(TEXTS) if hostile else (name if rng.random() > 0.06 else "")
        if hostile and i < len(MUST): (desc, disp) = (MUST[i], disp) if rng.random() < 0.5 else (desc, MUST[i])
        g.nodes[k] = dict(cls=cls, bname=(bn_uri, name), display=disp, desc=desc, attrs=attrs, value=value)
        g.order.append(k); keys.append(k)
    allk = list(g.nodes)
    for _ in range(rng.randint(n_nodes // 2, 2 * n_nodes)):
        if not keys: break
        s = rng.choice(keys); t = rng.choice(allk if rng.random() < 0.8 else keys)
        if dangling and rng.random() < 0.08: t = (rng.choice(g.uris + [UA]), "i", str(9000 + rng.randint(0, 5 if rng.random() < 0.6 else 50)))
        elif dangling and rng.random() < 0.04:     # undefined, but a node with the same identifier text and another identifier type is defined
            pu, pt, pid = rng.choice(keys); t = (pu, rng.choice([x for x in "sgb" if x != pt]), pid)
            if t in g.nodes: t = rng.choice(allk)
        ty = rng.choice(reftypes)
        if rng.random() < 0.5: s, t = t, s
        g.refs.append((s, t, ty))
    # a node that no document defines, named by a node attribute AND by a reference (a companion nodeset parsed without what it builds on)
    dang_attr = sorted(set(v for k_ in keys for v in g.nodes[k_]["attrs"].values() if isinstance(v, tuple) and v not in g.nodes))
    if dangling and dang_attr and keys and rng.random() < 0.7:
        t = rng.choice(dang_attr); s_ = rng.choice(keys)
        g.refs.append((s_, t, rng.choice(reftypes)) if rng.random() < 0.5 else (t, s_, rng.choice(reftypes)))
    if rng.random() < 0.3 and keys: k = rng.choice(keys); g.refs.append((k, k, rng.choice(reftypes)))      # self reference
    g.mutual = []
    if rng.random() < 0.35 and len(keys) >= 1 and len(allk) >= 2:
        # a two-cycle of one reference type; the serialiser may declare both triples on the same node (one forward, one inverse, same type and same other node)
        a = rng.choice(keys); b = rng.choice([x for x in allk if x != a]); ty = rng.choice(reftypes)
        g.refs.append((a, b, ty)); g.refs.append((b, a, ty)); g.mutual.append((len(g.refs) - 2, len(g.refs) - 1))
    if rng.random() < 0.3 and g.refs: g.refs.append(rng.choice(g.refs))                                       # declared twice
    for u in g.uris:
        g.models[u] = dict(version=rng.choice(["1.0.0", "2.1", None]), pubdate=rng.choice(["2020-01-01T00:00:00Z", None]),
                           required=[dict(uri=UA, version=rng.choice(["1.04", None]), pubdate=rng.choice(["2019-05-01T00:00:00Z", None]))] +
                                    ([dict(uri=rng.choice(g.uris), version="1.0", pubdate=None)] if rng.random() < 0.3 else []))
    return g

def nid_text(key, local, alias_of=None, rng=None):
    """NodeId text of an abstract key under a document's local URI table"""
    uri, t, ident = key
    if alias_of and key in alias_of and (rng is None or rng.random() < 0.8): return alias_of[key]
    idx = local.index(uri)
    # a document may list the OPC UA namespace in its own NamespaceUris table: its identifiers can then be written with that local index as well
    if idx == 0 and rng is not None and uri in local[1:] and rng.random() < 0.6: idx = 1 + local[1:].index(uri)
    return "%s=%s" % (t, ident) if idx == 0 else "ns=%d;%s=%s" % (idx, t, ident)

def serialise(g, rng, base_name="Opc.Ua.NodeSet2.xml", placement=None, file_names=None, with_base=True, perm=True, aliases=True, value_xml=None, split=False):
    """graph -> list of (file name, doc AST).  placement: how each reference is declared ('src', 'trg', 'both'); None = random.
    split: a namespace may be spread over two documents (a structure file and an instance file), each declaring its own half of the nodes"""
    out = []
    uris_docs = ([UA] if with_base else []) + list(g.uris)
    names = file_names or {}
    if placement is None:
        placement = [rng.choice(["src", "trg", "both"]) for _ in g.refs]
        for i in getattr(g, "force_both", []):
            if i < len(placement): placement[i] = "both"
        for i, r_ in enumerate(g.refs):
            if r_ in getattr(g, "force_src", ()): placement[i] = "src"
        for i, j in getattr(g, "mutual", []):
            if i < len(placement) and j < len(placement) and rng.random() < 0.7: placement[i], placement[j] = rng.choice([("src", "trg"), ("both", "both"), ("trg", "src")])
    parts = []
    for U in uris_docs:
        mine_all = [k for k in g.order if k[0] == U]
        if split and U != UA and len(mine_all) >= 2 and (split == "force" or rng.random() < 0.4):
            cut = rng.randint(1, len(mine_all) - 1); parts += [(U, mine_all[:cut], 0), (U, mine_all[cut:], 1)]
        else: parts.append((U, mine_all, 0))
    for di, (U, mine, part_no) in enumerate(parts):
        if not mine and U != UA: continue
        # references declared in this document
        decl = []   # (holder key, type key, forward?, other key)
        for ri, (s, t, ty) in enumerate(g.refs):
            pl = placement[ri]
            on_src = s in mine and s in g.nodes and (pl in ("src", "both") or not (t[0] in uris_docs and t in g.nodes))
            on_trg = t in mine and t in g.nodes and (pl in ("trg", "both") or not (s[0] in uris_docs and s in g.nodes))
            if on_src: decl.append((s, ty, True, t))
            if on_trg and not (on_src and s == t and pl != "both"): decl.append((t, ty, False, s))
        used = [UA, U] if U != UA else [UA]
        for k in mine:
            n = g.nodes[k]
            for u in [n["bname"][0]] + [v[0] for v in n["attrs"].values() if isinstance(v, tuple)]:
                if u not in used: used.append(u)
        for h, ty, f, o in decl:
            for u in (ty[0], o[0]):
                if u not in used: used.append(u)
        local_rest = used[1:]
        if perm: rng.shuffle(local_rest)
        if rng.random() < 0.3:                     # a declared but unused namespace
            extra = [u for u in g.uris if u not in used]
            if extra: local_rest.insert(rng.randint(0, len(local_rest)), rng.choice(extra))
        if len(g.uris) >= 9 and rng.random() < 0.75:   # a wide graph: the document carries the whole table, so local indices have two digits
            local_rest = local_rest + [u for u in g.uris if u not in local_rest]
            if perm: rng.shuffle(local_rest)
        local = [UA] + local_rest
        bt_ = getattr(g, "base_in_table", None)
        if U != UA and (rng.random() < 0.1 if bt_ is None else bt_): local.insert(rng.randint(1, len(local)), UA)
        alias_of = {}
        alias_list = []
        if aliases:
            cand = [k for k in g.nodes if g.nodes[k]["cls"] in ("UAReferenceType", "UADataType") and k[0] in local]
            for k in cand:
                if rng.random() < 0.7:
                    a = g.nodes[k]["bname"][1]
                    if a in alias_of.values(): continue
                    alias_of[k] = a; alias_list.append((a, nid_text(k, local)))
            # an alias belongs to the document that defines it: every document may bind the same names to other nodes
            rts = sorted(set(ty for h, ty, f, o in decl if ty not in alias_of and ty[0] in local))
            if rts and rng.random() < 0.6 and "Ref" not in alias_of.values():
                k = rng.choice(rts); alias_of[k] = "Ref"; alias_list.append(("Ref", nid_text(k, local)))
            dts = sorted(set(v for k2 in mine for a2, v in g.nodes[k2]["attrs"].items() if isinstance(v, tuple) and v not in alias_of and v[0] in local))
            if dts and rng.random() < 0.4 and "Tgt" not in alias_of.values():
                k = rng.choice(dts); alias_of[k] = "Tgt"; alias_list.append(("Tgt", nid_text(k, local)))
        nodes = []
        for k in mine:
            n = g.nodes[k]
            attrs = [("NodeId", nid_text(k, local, alias_of if rng.random() < 0.05 else None))]
            bidx = local.index(n["bname"][0])
            bn = ("%d:%s" % (bidx, n["bname"][1])) if (bidx != 0 or ":" in n["bname"][1] or rng.random() < 0.5) else n["bname"][1]
            attrs.append(("BrowseName", bn))
            for a, v in n["attrs"].items():
                attrs.append((a, nid_text(v, local, alias_of, rng) if isinstance(v, tuple) else v))
            rest = attrs[1:]; rng.shuffle(rest); attrs = [attrs[0]] + rest if rng.random() < 0.5 else rest + [attrs[0]]
            refs = []
            for h, ty, f, o in decl:
                if h != k: continue
                # only the literal "false" turns a reference round: every other spelling (absent, true, the schema's "1", other capitalisations) is forward
                fwd = None if (f and rng.random() < 0.5) else ((rng.choice(["true", "true", "1", "True", "TRUE"])) if f else "false")
                refs.append((nid_text(ty, local, alias_of, rng), fwd, nid_text(o, local) + (rng.choice(["", " ", "\n      "]) if rng.random() < 0.2 else "")))
            if k not in getattr(g, "ordered_refs", ()): rng.shuffle(refs)
            disp = [n["display"]] if n["display"] is not None else []
            # several DisplayName elements: the first one counts, also when it is empty
            if disp and (rng.random() < 0.1 or (disp[0].strip() == "" and rng.random() < 0.7)): disp.append("second display name")
            ext = None
            if rng.random() < 0.12:
                ext = ('<Extensions><Extension><References><Reference ReferenceType="i=47">i=%d</Reference><Reference ReferenceType="i=35" IsForward="false">ns=1;i=%d</Reference></References>'
                       '<Note>kept by a modelling tool</Note></Extension></Extensions>') % (9900 + rng.randint(0, 9), 9900 + rng.randint(0, 9))
            nodes.append(dict(cls=n["cls"], attrs=attrs, display=disp, desc=n["desc"], refs=refs if (refs or rng.random() < 0.5) else None, extensions=ext,
                              value=(value_xml(n["value"]) if n["value"] is not None and value_xml else None)))
        m = g.models.get(U)
        models = None
        if U != UA and m is not None:
            ma = [("ModelUri", U)] + ([("Version", m["version"])] if m["version"] else []) + ([("PublicationDate", m["pubdate"])] if m["pubdate"] else [])
            req = [[("ModelUri", r["uri"])] + ([("Version", r["version"])] if r["version"] else []) + ([("PublicationDate", r["pubdate"])] if r["pubdate"] else []) for r in m["required"]]
            models = [dict(attrs=ma, required=req)]
        elif U == UA and (rng.random() < 0.5 or getattr(g, "base_model", False)):
            models = [dict(attrs=[("ModelUri", UA), ("Version", "1.04.7"), ("PublicationDate", "2020-07-15T00:00:00Z")], required=[])]
        fname = names.get(U) or (base_name if U == UA else "ns_%02d_%s%s.xml" % (rng.randint(0, 99), "".join(c for c in U if c.isalnum())[-8:], "_b" if part_no else ""))
        d = dict(uris=local[1:] if (len(local) > 1 or rng.random() < 0.5) else None, models=models, aliases=alias_list if (alias_list or rng.random() < 0.5) else None, nodes=nodes)
        while any(fname == x[0] for x in out): fname = fname[:-4] + "_.xml"
        out.append((fname, d, local))
    return out

# ---------------------------------------------------------------------------------------------- enumerations (C11, C16, C17)
def add_enums(g, rng, n_types=None, n_vars=None, flavours=None, kinds=None, placeholder=None, value_names=None, version_prop=None):
    """adds the Enumeration data type to the base namespace, enum types (EnumStrings / EnumValues / no definition) and enum-typed variables.
       returns a description used by the oracles: dict(types={key: (flavour, mapping or None, name)}, vars={key: (type key, kind, value)})"""
    from opcua_tools import ua_data_types as T
    enum_root = (UA, "i", "29")
    g.nodes[enum_root] = dict(cls="UADataType", bname=(UA, "Enumeration"), display="Enumeration", desc=None, attrs={}, value=None); g.order.append(enum_root)
    g.refs.append(((UA, "i", "24"), enum_root, (UA, "i", "45")))
    desc = dict(types={}, vars={})
    uri = g.uris[0] if g.uris else UA
    nt = rng.randint(0, 3) if n_types is None else n_types
    for i in range(nt):
        tk = (uri, "i", str(3000 + i))
        flavour = flavours[i] if flavours else rng.choice(["strings", "values", "none"])
        name = "Enum%d" % i
        g.nodes[tk] = dict(cls="UADataType", bname=(uri, name), display=name, desc=None, attrs={}, value=None); g.order.append(tk)
        g.refs.append((enum_root, tk, (UA, "i", "45")))
        mapping = None; late_ref = None
        if flavour != "none" and (rng.random() < 0.4 if version_prop is None else version_prop):
            # another property of the type, without a Value, referenced BEFORE the definition property (NodeVersion, a documentation property, ...)
            xk = (uri, "i", str(3300 + i))
            g.nodes[xk] = dict(cls="UAVariable", bname=(UA, "NodeVersion"), display="NodeVersion", desc=None, attrs={"DataType": (UA, "i", "12")}, value=None); g.order.append(xk)
            g.refs.append((tk, xk, (UA, "i", "46")))
            if version_prop == "ref-after": late_ref = g.refs.pop()      # its NODE stands before the definition property, its REFERENCE is listed after the definition's
        if flavour == "strings":
            texts = [rng.choice(["Off", "On", "Auto", "a b", "é"]) + str(j) for j in range(rng.randint(1, 4))]
            # a reserved number: an entry without text in the middle of the array (the numbers of EnumStrings are positions)
            if placeholder and len(texts) < 3: texts += ["Extra%d" % j for j in range(3 - len(texts))]
            if len(texts) >= 2 and (placeholder or (placeholder is None and rng.random() < 0.4)): texts[rng.randrange(len(texts) - 1)] = None
            mapping = {j: t_ for j, t_ in enumerate(texts) if t_ is not None}
            pk = (uri, "i", str(3100 + i))
            val = T.UAListOf(tuple(T.UALocalizedText(t_, "en") if t_ is not None else T.UALocalizedText(None, None) for t_ in texts), "LocalizedText")
            g.nodes[pk] = dict(cls="UAVariable", bname=(UA, "EnumStrings"), display="EnumStrings", desc=None, attrs={"DataType": (UA, "i", "21"), "ValueRank": "1"}, value=val); g.order.append(pk)
            g.refs.append((tk, pk, (UA, "i", "46")))
        elif flavour == "values":
            pairs = [(rng.choice([0, 1, 2, 5, 10, 100]) + 7 * j, rng.choice(["Low", "High", "Mid", "\u00b0C", "m\u00b2 & <x>", "\u00b5"]) + str(j)) for j in range(rng.randint(1, 3))]
            if value_names: pairs = [(3 + 7 * j, nm) for j, nm in enumerate(value_names)]      # display names fixed by the caller
            mapping = dict(pairs)
            pk = (uri, "i", str(3100 + i))
            items = tuple(T.UAExtensionObject(type_nodeid=T.UANodeId(0, "i", "7616"),
                          body=T.UAXMLElement('<EnumValueType xmlns="http://opcfoundation.org/UA/2008/02/Types.xsd"><Value>%d</Value><DisplayName><Text>%s</Text></DisplayName></EnumValueType>' % (v, t.replace("&", "&amp;").replace("<", "&lt;").replace(">", "&gt;")))) for v, t in pairs)
            val = T.UAListOf(items, "ExtensionObject")
            g.nodes[pk] = dict(cls="UAVariable", bname=(UA, "EnumValues"), display="EnumValues", desc=None, attrs={"DataType": (UA, "i", "24"), "ValueRank": "1"}, value=val); g.order.append(pk)
            g.refs.append((tk, pk, (UA, "i", "46")))
        if late_ref:
            # ... and both are declared on the type itself, in this order: the definition is the type's FIRST property in the document, the second in node order
            g.refs.append(late_ref)
            g.force_src = set(getattr(g, "force_src", ())) | {late_ref, (tk, (uri, "i", str(3100 + i)), (UA, "i", "46"))}
            g.ordered_refs = set(getattr(g, "ordered_refs", ())) | {tk}
        desc["types"][tk] = (flavour, mapping, name)
    tks = list(desc["types"])
    if tks and rng.random() < 0.5:
        tk0 = rng.choice(tks); m0 = desc["types"][tk0][1]
        vt = (uri, "i", str(3400)); x0 = rng.choice(sorted(m0)) if m0 else 1
        g.nodes[vt] = dict(cls="UAVariableType", bname=(uri, "EnumVarType"), display="EnumVarType", desc=None, attrs={"DataType": tk0}, value=T.UAInt32(x0)); g.order.append(vt)
        g.refs.append(((UA, "i", "63"), vt, (UA, "i", "45")))
    nv = rng.randint(0, 4) if n_vars is None else n_vars
    for i in range(nv):
        if not tks: break
        vk = (uri, "i", str(3200 + i)); tk = rng.choice(tks)
        flavour, mapping, _ = desc["types"][tk]
        kind = kinds[i] if kinds else rng.choice(["in", "in", "in", "out", "none", "list"])
        inside = sorted(mapping) if mapping else [0, 1]
        if kind == "in": x = rng.choice(inside); val = T.UAInt32(x)
        elif kind == "out": x = max(inside) + 1000; val = T.UAInt32(x)
        elif kind == "list": x = [rng.choice(inside), rng.choice(inside)]; val = T.UAListOf(tuple(T.UAInt32(y) for y in x), "Int32")
        elif kind == "empty": x = None; val = T.UAInt32(None)          # <Int32/>: a value element that is present but empty
        else: x = None; val = None
        g.nodes[vk] = dict(cls="UAVariable", bname=(uri, "EnumVar%d" % i), display="EnumVar%d" % i, desc=None, attrs={"DataType": tk}, value=val, keep_datatype=True); g.order.append(vk)
        desc["vars"][vk] = (tk, kind, x)
    return desc

BUILTIN_IDS = {"Boolean": 1, "SByte": 2, "Byte": 3, "Int16": 4, "UInt16": 5, "Int32": 6, "UInt32": 7, "Int64": 8, "UInt64": 9, "Float": 10, "Double": 11, "String": 12,
               "DateTime": 13, "Guid": 14, "ByteString": 15, "XmlElement": 16, "NodeId": 17, "ExpandedNodeId": 18, "StatusCode": 19, "QualifiedName": 20,
               "LocalizedText": 21, "ExtensionObject": 22, "DataValue": 23, "Variant": 24, "DiagnosticInfo": 25}
def add_typed_variables(g, rng, n_vars=None, make_value=None, spec=None, n_custom=None):
    """adds every built-in data type to the base namespace, some non-built-in types, and variables with (value, DataType) combinations.
       returns {var key: dict(value, datatype key or None, display)}"""
    from opcua_tools import ua_data_types as T
    for name, i in BUILTIN_IDS.items():
        k = (UA, "i", str(i))
        if k not in g.nodes:
            g.nodes[k] = dict(cls="UADataType", bname=(UA, name), display=name, desc=None, attrs={}, value=None); g.order.append(k)
    if (UA, "i", "24") in g.nodes: g.nodes[(UA, "i", "24")]["display"] = "Variant" if False else g.nodes[(UA, "i", "24")]["display"]
    uri = g.uris[0]
    custom = []
    for j, (nm, parent) in enumerate([("MyInt", "6"), ("EUInformation", "22"), ("Int32", "6")][:(rng.randint(1, 3) if n_custom is None else n_custom)]):
        k = (uri, "i", str(4000 + j))
        g.nodes[k] = dict(cls="UADataType", bname=(uri, nm), display=nm, desc=None, attrs={}, value=None); g.order.append(k)
        g.refs.append(((UA, "i", parent), k, (UA, "i", "45"))); custom.append(k)
    out = {}
    builtin_keys = [(UA, "i", str(i)) for i in BUILTIN_IDS.values()]
    nv = (rng.randint(1, 6) if n_vars is None else n_vars) if spec is None else len(spec)
    for i in range(nv):
        vk = (uri, "i", str(4100 + i))
        if spec is not None:
            val, dtname = spec[i]
            dt = None if dtname is None else ((UA, "i", str(BUILTIN_IDS[dtname])) if dtname in BUILTIN_IDS else [k for k in custom if g.nodes[k]["display"] == dtname.lstrip("*")][0])
            g.nodes[vk] = dict(cls="UAVariable", bname=(uri, "Var%d" % i), display="Var%d" % i, desc=None, attrs={} if dt is None else {"DataType": dt}, value=val); g.order.append(vk)
            out[vk] = dict(value=val, datatype=dt, display="Var%d" % i, cls="UAVariable"); continue
        val = make_value(rng) if rng.random() < 0.85 else None
        c = rng.random()
        if c < 0.1: dt = None
        elif c < 0.25: dt = rng.choice(custom)
        elif c < 0.6 and val is not None:
            name = type(val).__name__[2:]
            dt = (UA, "i", str(BUILTIN_IDS[name])) if name in BUILTIN_IDS else rng.choice(builtin_keys)
        else: dt = rng.choice(builtin_keys)
        disp = "Var%d" % i if rng.random() < 0.8 else "Dup"
        attrs = {} if dt is None else {"DataType": dt}
        g.nodes[vk] = dict(cls=rng.choice(["UAVariable"] * 5 + ["UAVariableType"]), bname=(uri, "Var%d" % i), display=disp, desc=None, attrs=attrs, value=val); g.order.append(vk)
        out[vk] = dict(value=val, datatype=dt, display=disp, cls=g.nodes[vk]["cls"])
    return out
