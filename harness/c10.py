"""C10 - JSON encodings are valid JSON of the right shape and lose nothing."""
import re, json, base64, datetime, math
import pandas as pd
import vlib, uaconv, c08
from vlib import Sym
from uaconv import py2sx, canon_sx, isna

JHOSTILE = ['"', "\\", "\n", "\t", "\r", "\x00", "\x1f", "\x7f", "é", "😀", "a", "b", " ", "/", "{", "}", "[", "]", ":", ",", "\u2126", "e\u0301"]
def jtext(rng, n=6): return "".join(rng.choice(JHOSTILE) for _ in range(rng.randint(0, n)))

VT = None
def variant_types():
    from opcua_tools.ua_data_types import VariantType
    return VariantType

# the built-in type numbers of OPC UA Part 6, by class of the value (the harness's own table: the generator never passes type= to UAVariant)
BUILTIN = {"UABoolean": 1, "UASByte": 2, "UAByte": 3, "UAInt16": 4, "UAUInt16": 5, "UAInt32": 6, "UAEnumeration": 6, "UAUInt32": 7, "UAInt64": 8, "UAUInt64": 9,
           "UAFloat": 10, "UADouble": 11, "UAString": 12, "UADateTime": 13, "UAGuid": 14, "UAByteString": 15, "UAXMLElement": 16, "UANodeId": 17,
           "UAExpandedNodeId": 18, "UAStatusCode": 19, "UAQualifiedName": 20, "UALocalizedText": 21, "UAExtensionObject": 22, "UADataValue": 23, "UAVariant": 24,
           "UADiagnosticInfo": 25}
def builtin_number(value):
    return 0 if isna(value) else BUILTIN[type(value).__name__]

def gen(rng):
    from opcua_tools import ua_data_types as T
    c = rng.random()
    if c < 0.55:
        v = c08.gen_value(rng)
        return v
    if c < 0.7: return rng.choice([T.UAString, T.UAGuid])(rng.choice([jtext(rng), pd.NA]))
    if c < 0.75: return T.UAXMLElement(jtext(rng))
    if c < 0.8: return T.UALocalizedText(rng.choice([jtext(rng), pd.NA]), rng.choice(["en", "de-DE", pd.NA]))
    if c < 0.85:
        try: return T.UANodeId(rng.choice([0, 1, 7]), "s", jtext(rng, 4) or "x")
        except Exception: return T.UANodeId(1, "s", "x")
    if c < 0.9: return T.UAQualifiedName(rng.choice([0, 1, 65535]), jtext(rng, 4))
    inner = c08.gen_value(rng, kinds=["bool", "int", "float", "string", "guid", "datetime", "bytes", "nodeid", "loctext", "ext", "xml", "enum"])
    try: return T.UAVariant(value=rng.choice([inner, inner, pd.NA]))
    except Exception: return T.UAVariant(pd.NA)

def to_jsx(v):
    from opcua_tools import ua_data_types as T
    if isinstance(v, T.UAVariant): return [Sym("variant"), [] if isna(v.value) else [py2sx(v.value)], builtin_number(v.value)]
    if isinstance(v, T.UAQualifiedName): return [Sym("qname"), int(v.namespace_index), v.name]
    return py2sx(v)

def ints64(v, acc):
    from opcua_tools import ua_data_types as T
    if isinstance(v, (T.UAInt64, T.UAUInt64)) and not isna(v.value): acc.append(v.value)
    elif isinstance(v, T.UAListOf):
        for x in v.value: ints64(x, acc)
    elif isinstance(v, T.UAVariant) and not isna(v.value): ints64(v.value, acc)
    elif isinstance(v, T.UAExtensionObject): ints64(v.body, acc)
    return acc
def ext_table(v):
    E = []
    for z in set(ints64(v, [])):
        try: E.append(["i2f:%d" % z, [repr(float(z))]])
        except OverflowError: E.append(["i2f:%d" % z, []])
    return E

def clear_caches():
    from opcua_tools import ua_data_types as T
    for name in dir(T):
        cls = getattr(T, name)
        f = getattr(cls, "json_encode", None) if isinstance(cls, type) else None
        if f is not None and hasattr(f, "cache_clear"): f.cache_clear()

def impl_json(v):
    # the memoisation of json_encode is left alone: what an earlier value left in a cache is part of what is tested
    try:
        out = v.json_encode()
        return ["ok", [] if out is None else [out]]
    except BaseException as e:
        return ["err", type(e).__name__]

# ---------------------------------------------------------------- the property on the implementation
def needs_escape(s): return json.dumps(s, ensure_ascii=False) != '"' + s + '"'
def causes(v):
    from opcua_tools import ua_data_types as T
    c = set()
    if isinstance(v, (T.UAInt64, T.UAUInt64)) and not isna(v.value):
        c.add("int64-via-float")
    elif isinstance(v, T.UANodeId):
        if v.nodeid_type.value != "i" and needs_escape(str(v.value)): c.add("identifier-unescaped")
    elif isinstance(v, T.UAQualifiedName):
        if needs_escape(v.name): c.add("identifier-unescaped")
    elif isinstance(v, T.UAListOf):
        for x in v.value:
            if not isinstance(x, (T.UAInteger, T.UAFloatingPoint)) or isinstance(x, (T.UAInt64, T.UAUInt64)) or isna(x.value) or (isinstance(x.value, float) and not math.isfinite(x.value)):
                c.add("list-items-not-json")
    elif isinstance(v, T.UAVariant):
        if not isna(v.value): c |= causes(v.value)
    elif isinstance(v, T.UAExtensionObject):
        c |= causes(v.type_nodeid); c |= causes(v.body)
        t = v.type_nodeid
    elif isinstance(v, T.UAEURange):
        pass
    return c

def expect(v):
    """the JSON value the OPC UA encoding prescribes, as a Python object; raises KeyError for things outside the statement"""
    from opcua_tools import ua_data_types as T
    if isinstance(v, T.UAVariant):
        if isna(v.value): return None
        b = expect(v.value)
        return None if b is None else {"Type": builtin_number(v.value), "Body": b}
    if isinstance(v, T.UAQualifiedName):
        d = {"Name": v.name}
        if v.namespace_index != 0: d["Uri"] = int(v.namespace_index)
        return d
    if isinstance(v, T.UABoolean): return None if isna(v.value) else bool(v.value)
    if isinstance(v, T.UAInteger):
        if isna(v.value): return None
        return ("int64", v.value) if isinstance(v, (T.UAInt64, T.UAUInt64)) else v.value
    if isinstance(v, T.UAFloatingPoint):
        x = v.value
        if x is pd.NA or x is None: return None
        if x != x: return "NaN"
        if x in (float("inf"), float("-inf")): return "Infinity" if x > 0 else "-Infinity"
        return ("float", repr(x))
    if isinstance(v, T.UAString): return None if isna(v.value) else v.value
    if isinstance(v, T.UAXMLElement): return v.value
    if isinstance(v, T.UADateTime): return ("instant", c08.instant(v.value))
    if isinstance(v, T.UAByteString): return None if isna(v.value) else ("b64", bytes(v.value))
    if isinstance(v, T.UANodeId):
        d = {}
        if v.namespace != 0: d["Namespace"] = v.namespace
        tnum = {"i": 0, "s": 1, "g": 2, "b": 3}[v.nodeid_type.value]
        if tnum: d["IdType"] = tnum
        d["Id"] = int(v.value) if tnum == 0 else str(v.value)
        return d
    if isinstance(v, T.UALocalizedText):
        d = {"Text": "" if isna(v.text) else v.text}
        if not isna(v.locale): d["Locale"] = v.locale
        return d
    if isinstance(v, T.UAEngineeringUnits):
        e = v.ua_eu_information
        return {"TypeId": {"Id": 888}, "Body": {"DisplayName": expect(e.display_name), "Description": expect(e.description), "UnitId": e.unit_id, "NamespaceUri": e.namespace_uri}}
    if isinstance(v, T.UAEURange):
        return {"TypeId": {"Id": 885}, "Body": {"Low": expect(T.UADouble(v.ua_range.low)), "High": expect(T.UADouble(v.ua_range.high))}}
    if isinstance(v, T.UAExtensionObject):
        b = expect(v.body)
        if b is None: return None
        d = {"TypeId": expect(v.type_nodeid), "Body": b}
        if isinstance(v.body, T.UAByteString): d["Encoding"] = 1
        if isinstance(v.body, T.UAXMLElement): d["Encoding"] = 2
        return d
    if isinstance(v, T.UAListOf):
        return {"Type": variant_types()[v.typename].value, "Body": [expect(x) for x in v.value]}
    raise KeyError(type(v).__name__)

def matches(want, got):
    if isinstance(want, tuple):
        k, x = want
        if k == "int64":
            if not isinstance(got, str): return False
            try: return int(got) == x
            except ValueError:
                try:
                    f = float(got); return f == x and int(f) == x
                except ValueError: return False
        if k == "float": return isinstance(got, float) and repr(got) == x or (isinstance(got, int) and repr(float(got)) == x)
        if k == "b64":
            try: return isinstance(got, str) and base64.b64decode(got, validate=True) == x
            except Exception: return False
        if k == "instant":
            if not isinstance(got, str): return False
            try:
                d = datetime.datetime.strptime(got, "%Y-%m-%dT%H:%M:%S.%fZ")
                return c08.instant(d) == x
            except ValueError: return False
    if isinstance(want, dict):
        return isinstance(got, dict) and set(want) == set(got) and all(matches(want[k], got[k]) for k in want)
    if isinstance(want, list):
        return isinstance(got, list) and len(want) == len(got) and all(matches(a, b) for a, b in zip(want, got))
    if isinstance(want, bool) or isinstance(got, bool): return want is got
    return want == got and type(want) is type(got)

def odd_offset(v):
    from opcua_tools import ua_data_types as T
    if isinstance(v, T.UAVariant): v = v.value
    if isinstance(v, T.UADateTime) and isinstance(v.value, datetime.datetime) and v.value.tzinfo is not None:
        off = v.value.utcoffset()
        return off is not None and (off.seconds % 60 != 0 or off.microseconds != 0)
    return False

def judge(v):
    out = impl_json(v)
    fails = []
    name = type(v).__name__
    try: want = expect(v)
    except KeyError: return out, fails
    if out[0] == "err":
        if out[1] == "OverflowError" and "DateTime" in repr(v): return out, fails
        fails.append(("C10/%s/raises" % name, "json_encode raised %s for %r" % (out[1], v)))
    elif out[1] == []:
        if want is not None: fails.append(("C10/%s/none-for-non-null" % name, "json_encode returned None for %r" % (v,)))
    else:
        text = out[1][0]
        try: got = json.loads(text)
        except ValueError:
            fails.append(("C10/%s/invalid-json" % name, "%r -> %s" % (v, text[:200]))); got = None
        else:
            if want is None:
                if got is not None: fails.append(("C10/%s/null-not-null" % name, "%r -> %s" % (v, text[:200])))
            elif not matches(want, got):
                fails.append(("C10/%s/wrong-shape-or-content" % name, "%r -> %s, expected %r" % (v, text[:200], want)))
    cs = causes(v)
    if fails and cs: fails = [("C10/known:" + "+".join(sorted(cs)), f[0] + ": " + f[1]) for f in fails]
    return out, fails

# ---------------------------------------------------------------- the model's JSON reader against json.loads
class _Reject(Exception): pass
def py_tree(text):
    """json.loads with number literals kept as text and members in order, in the wire form of R_C10.e_jv; None when it refuses the text.
    The model's reader knows no whitespace between tokens and no NaN/Infinity constants, so those are refused here as well."""
    def const(c): raise _Reject(c)
    def conv(x):
        if x is None: return ["null"]
        if x is True or x is False: return ["bool", "true" if x else "false"]
        if isinstance(x, tuple) and x[0] == "num": return ["num", x[1]]
        if isinstance(x, tuple) and x[0] == "obj": return ["obj", [[k, conv(v)] for k, v in x[1]]]
        if isinstance(x, str): return ["str", x]
        if isinstance(x, list): return ["arr", [conv(y) for y in x]]
        raise _Reject(type(x).__name__)
    try:
        t = json.loads(text, parse_float=lambda n: ("num", n), parse_int=lambda n: ("num", n), parse_constant=const, object_pairs_hook=lambda kv: ("obj", kv))
    except (ValueError, _Reject, RecursionError):
        return None
    # whitespace outside string literals: drop the literals, then look
    bare = re.sub(r'"(?:[^"\\]|\\.)*"', '""', text, flags=re.S)
    if any(ch in bare for ch in " \t\r\n"): return None
    return conv(t)

def check(ctx):
    rng = ctx.rng
    ctx.rule = ("random values of every supported class (as in C08) plus text with quotes, backslashes, control and non-ASCII characters, 64-bit extremes, Variants of every "
                "built-in value and QualifiedNames. Distinct by SHA-256 of the value; non-trivial when the value is structured, null, non-finite, 64-bit, or contains a character that JSON must escape.")
    ctx.trusted = ["hand-written Gallina model coq/M_C10.v of every json_encode (string concatenation, copied) and of json.dumps(str, ensure_ascii=False); the JSON printer jprint is a definition "
                   "validated against json.loads by the oracle of this run",
                   "external: float(int) with repr of the result for the 64-bit encoders (a table supplied by the harness)",
                   "str() of list elements other than numbers, booleans, strings and NodeIds (bytes, datetimes, nested tuples) is outside the model (Unsupported, skipped)",
                   "extraction + driver.ml, cross-checked against vm_compute on a sample"]
    reqs = []; meta = []; dreqs = []; preqs = []
    from opcua_tools import ua_data_types as T
    # a fixed corpus that runs first: values that compare equal but must be written differently (anything keyed by == would confuse them)
    corpus = [T.UADouble(-0.0), T.UADouble(0.0), T.UAFloat(0.0), T.UAFloat(-0.0), T.UADouble(1), T.UADouble(1.0), T.UAEURange(low=-0.0, high=0.0), T.UAEURange(low=0.0, high=-0.0),
              T.UAVariant(T.UADouble(0.0)), T.UAVariant(T.UADouble(-0.0)),
              # the interpreter-wide NaN object and other NaN objects (a table keyed by a NaN finds it by identity only)
              T.UADouble(math.nan), T.UAFloat(math.nan), T.UADouble(float("nan")), T.UAVariant(T.UADouble(math.nan)), T.UAEURange(low=0.0, high=math.nan),
              T.UADouble(math.inf), T.UADouble(-math.inf), T.UAFloat(math.inf),
              # one Variant without an explicit type around a value of every built-in class the library knows
              T.UAVariant(T.UABoolean(True)), T.UAVariant(T.UASByte(-1)), T.UAVariant(T.UAByte(1)), T.UAVariant(T.UAInt16(-2)), T.UAVariant(T.UAUInt16(2)), T.UAVariant(T.UAInt32(-3)),
              T.UAVariant(T.UAUInt32(3)), T.UAVariant(T.UAFloat(1.5)), T.UAVariant(T.UAString("s")), T.UAVariant(T.UAGuid("12345678-9ABC-DEF0-1234-56789ABCDEF0")),
              T.UAVariant(T.UAByteString(b"ab")), T.UAVariant(T.UAXMLElement("<a/>")), T.UAVariant(T.UANodeId(1, "i", "5")), T.UAVariant(T.UALocalizedText("t", "en")),
              T.UAVariant(T.UADateTime(datetime.datetime(2020, 1, 2, 3, 4, 5, tzinfo=datetime.timezone.utc))),
              # identifiers of every type that consist of digits only (what the identifier IS does not decide how it is written: its type does)
              T.UANodeId(2, "s", "1001"), T.UANodeId(0, "s", "007"), T.UANodeId(1, "g", "42"), T.UANodeId(3, "b", "0"), T.UANodeId(1, "i", "1001"), T.UANodeId(0, "s", "-1"), T.UANodeId(1, "s", "1e3"),
              T.UAVariant(T.UANodeId(2, "s", "1001")), T.UAExtensionObject(type_nodeid=T.UANodeId(2, "s", "77"), body=T.UAXMLElement("<a/>")),
              T.UAListOf((T.UANodeId(2, "s", "12"), T.UANodeId(2, "i", "12")), "NodeId"),
              # date-times with an offset that is not a whole number of seconds (local mean solar time), with sub-second parts, near a day boundary
              T.UADateTime(datetime.datetime(2021, 6, 1, 12, 0, 0, 250000, tzinfo=datetime.timezone(datetime.timedelta(minutes=43, microseconds=528000)))),
              T.UADateTime(datetime.datetime(2021, 6, 1, 0, 0, 0, 1, tzinfo=datetime.timezone(datetime.timedelta(hours=5, seconds=17, microseconds=999999)))),
              T.UADateTime(datetime.datetime(1999, 12, 31, 23, 59, 59, 999999, tzinfo=datetime.timezone(-datetime.timedelta(hours=4, minutes=56, seconds=2, microseconds=500000)))),
              T.UAVariant(T.UADateTime(datetime.datetime(2021, 6, 1, 12, 0, 0, 250000, tzinfo=datetime.timezone(datetime.timedelta(minutes=43, microseconds=528000))))),
              # long lists (every element is part of the Body)
              T.UAListOf(tuple(T.UAInt32(i) for i in range(1001)), "Int32"), T.UAListOf(tuple(T.UAUInt16(i % 7) for i in range(1500)), "UInt16"), T.UAListOf(tuple(T.UADouble(i + 0.5) for i in range(1001)), "Double"),
              # texts at the edge of what a quoting shortcut might look at: a final line feed, only a line feed, a final backslash, a final quote
              T.UAString("abc\n"), T.UAString("\n"), T.UAString("abc\\"), T.UAString("q\""), T.UAString("tab\tend"), T.UAGuid("g\n"), T.UALocalizedText("x\n", "en"), T.UAXMLElement("<a/>\n")]
    n_rand = 350 if ctx.quick() else 8000
    for i in range(len(corpus) + n_rand):
        v = corpus[i] if i < len(corpus) else gen(rng)
        if v is None: continue
        out, fails = judge(v)
        if odd_offset(v):
            # the model's datetimes carry their UTC offset in whole minutes (as uaconv sends them); an offset with seconds or
            # microseconds is judged by the oracle alone
            ctx.record("odd-offset:" + repr(v), True, ["odd-offset"])
            for sig, detail in fails: ctx.fail(sig, dict(kind="py", expr=repr_expr(v)), detail)
            continue
        sx = to_jsx(v)
        # a Variant: the model infers the Type number from the value's class itself (M_C10r.variant_type_of)
        reqs.append([Sym("c10_variant_auto"), ext_table(v), sx[1]] if isinstance(v, T.UAVariant) else [Sym("c10_json"), ext_table(v), sx]); meta.append((v, out))
        dreqs.append([Sym("c10_domain"), sx])
        preqs.append([Sym("c10_parse"), out[1][0] if out[0] == "ok" and out[1] else ""])
        s = repr(v)
        ctx.record(canon_sx(sx), any(ch in s for ch in '"\\{[') or "NA" in s or "nan" in s or "inf" in s or "Int64" in s, [type(v).__name__])
        for sig, detail in fails: ctx.fail(sig, dict(kind="py", expr=repr_expr(v)), detail)
    # the rarely used keyword argument input_locale, on containers whose inner encoding raises and on ones where it does not; afterwards every value
    # encoded so far must encode exactly as it did the first time (nothing a call leaves behind may colour a later call)
    makers = [lambda: T.UAExtensionObject(type_nodeid=T.UANodeId(0, "i", "1"), body=T.UAXMLElement("<a/>")),
              lambda: T.UAExtensionObject(type_nodeid=T.UANodeId(0, "i", "1"), body=T.UAByteString(bytearray(b"ab"))),
              lambda: T.UAVariant(T.UALocalizedText("t", "en")), lambda: T.UAEngineeringUnits(T.UAEUInformation(T.UALocalizedText("m", "en"), T.UALocalizedText(pd.NA, pd.NA), 5, "http://u")),
              lambda: T.UAEngineeringUnits(T.UAEUInformation(T.UALocalizedText(pd.NA, "en"), T.UALocalizedText("d", "en"), 5, pd.NA)),
              lambda: T.UAVariant(T.UAByteString(bytearray(b"ab"))), lambda: T.UALocalizedText("x", "en"), lambda: T.UAVariant(T.UAString("s")),
              lambda: T.UAVariant(T.UAListOf((T.UALocalizedText("a", "en"), T.UAInt32(1)), "LocalizedText"))]
    probes = []
    for mk_ in makers:
        try: probes.append(mk_())
        except BaseException: pass
    for pr in probes:
        for kw in (dict(input_locale="zz"), dict()):
            try: pr.json_encode(**kw)
            except BaseException: pass
    for v0, out0 in meta[:120]:
        again = impl_json(v0)
        if again != out0:
            ctx.fail("C10/depends-on-earlier-call", dict(kind="py", expr=repr_expr(v0)), "json_encode of %r gave %r at first and %r after other values had been encoded (some with input_locale=)" % (v0, out0, again))
    ans = vlib.run_model(reqs, shards=12)
    uns = 0
    for (v, out), a in zip(meta, ans):
        a = vlib.untext(a)
        if a[0] == "err" and a[1] == "Unsupported": uns += 1; continue
        mo = ["ok", a[1]] if a[0] == "ok" else ["err"]
        io = out if out[0] == "ok" else ["err"]
        if io != mo: ctx.disagree("json", canon_sx(to_jsx(v)), out, a)
    ctx.notes["unsupported_by_model"] = uns
    # the reader of the model (M_C10r.jparse) on the texts the implementation returned: (a) it reads what json.loads reads, (b) for a value inside the
    # theorems' domain (C10_parses_as_json, C10_variant_parses_as_json, C10_extension_object_parses) it reads exactly the shape the theorem names
    dans = vlib.run_model(dreqs, shards=12); pans = vlib.run_model(preqs, shards=12)
    indom = same = read = 0
    for (v, out), d, pa in zip(meta, dans, pans):
        if not (out[0] == "ok" and out[1]): continue
        text = out[1][0]; d = vlib.untext(d); pa = vlib.untext(pa)
        got = pa[0] if pa else None
        want = py_tree(text)
        known = bool(causes(v))
        if got != want:
            ctx.disagree("out-of-domain" if known else "reader", canon_sx(to_jsx(v)), ["json.loads", want], ["jparse", got])
        elif got is not None: read += 1
        if d[0] == "true":
            indom += 1
            if d[1] and got == d[1][0]: same += 1
            else: ctx.disagree("out-of-domain" if known else "theorem-instance", canon_sx(to_jsx(v)), ["jparse of the implementation's text", got], ["shape", d[1]])
    ctx.notes["json_reader"] = ("%d texts returned by the implementation were read by the model's JSON reader as json.loads reads them (numbers as literals, members in order); "
                                "%d values lie in the domain of the C10 parse theorems and for %d of them the reader returned exactly the prescribed shape" % (read, indom, same))
    pick = sorted(rng.sample(range(len(reqs)), min(40 if ctx.quick() else 150, len(reqs))))
    pick = [i for i in pick if len(vlib.to_sx(reqs[i])) < 3000]
    ctx.crosscheck = vlib.coq_crosscheck([reqs[i] for i in pick], [ans[i] for i in pick], "c10")

def repr_expr(v):
    return repr(v)

def oracle_case(case):
    from opcua_tools import ua_data_types as T
    if case.get("kind") == "cache":
        clear_caches()
        a = T.UADouble(-0.0).json_encode(); b = T.UADouble(0.0).json_encode()
        clear_caches()
        return [("C10/float-zero-sign-cached", "UADouble(0.0).json_encode() = %r after encoding UADouble(-0.0)" % b)] if b != "0.0" else []
    if case.get("kind") == "py" and case.get("expr", "").startswith("T."):
        v = eval(case["expr"], {"T": T, "pd": pd, "datetime": datetime, "float": float})
        return judge(v)[1]
    return []
