"""C08 - XML value encoding and decoding are inverse for every supported value."""
import os, time, struct, datetime, random
import pandas as pd
import lxml.etree as ET
import vlib, uaconv
from vlib import Sym
from uaconv import py2sx, py2canon, canon_sx, TYPES_NS

HOSTILE = ["a", "b", "Z", "0", " ", "  ", "<", ">", "&", '"', "'", "&amp;", "]]>", "é", "😀", "中", "\t", "\n", ";", "=", "ns=1;", "/", "\\", "\u2126", "\u212a", "e\u0301", "\u212b"]
LOCALES = ["en", "de", "en-US", "nb_NO", "en-US.UTF8", "fil"]

def rtext(rng, maxlen=8, hostile=True):
    n = rng.randint(0, maxlen)
    alpha = HOSTILE if hostile else ["a", "b", "c", "1", " ", "-"]
    return "".join(rng.choice(alpha) for _ in range(n))

def rfloat(rng):
    c = rng.random()
    if c < 0.5: return rng.choice([0.0, -0.0, 1.0, -1.0, 1.5, 0.1, 1e-5, 1e16, 1e22, 123456789.125, 5e-324, 2.2250738585072014e-308, 1.7976931348623157e308, float("inf"), float("-inf")])
    if c < 0.6: return float("nan")
    x = struct.unpack("<d", struct.pack("<Q", rng.getrandbits(64)))[0]
    return x

IRANGE = {"SByte": (-128, 127), "Byte": (0, 255), "Int16": (-2**15, 2**15 - 1), "UInt16": (0, 2**16 - 1), "Int32": (-2**31, 2**31 - 1),
          "UInt32": (0, 2**32 - 1), "Int64": (-2**63, 2**63 - 1), "UInt64": (0, 2**64 - 1)}

def gen_value(rng, depth=0, kinds=None):
    from opcua_tools import ua_data_types as T
    NA = pd.NA
    kinds = kinds or ["bool", "int", "float", "string", "guid", "datetime", "bytes", "nodeid", "loctext", "eu", "range", "ext", "xml", "list", "enum"]
    k = rng.choice(kinds)
    if k == "bool": return T.UABoolean(rng.choice([True, False, NA]))
    if k == "int":
        name = rng.choice(sorted(IRANGE)); lo, hi = IRANGE[name]
        val = rng.choice([lo, hi, 0, 1, NA, rng.randint(lo, hi), hi + 1 if rng.random() < 0.3 else 7])
        return getattr(T, "UA" + name)(val)
    if k == "float": return rng.choice([T.UAFloat, T.UADouble])(rng.choice([rfloat(rng), rfloat(rng), NA]))
    if k == "string": return T.UAString(rng.choice([rtext(rng), rtext(rng, 3), NA, " a ", "\r\n", "a\rb"]))
    if k == "guid": return T.UAGuid(rng.choice(["12345678-9ABC-DEF0-1234-56789ABCDEF0", rtext(rng), NA]))
    if k == "datetime":
        c = rng.random()
        if c < 0.25: d = rng.choice([datetime.datetime(1, 1, 1), datetime.datetime(9999, 12, 31, 23, 59, 59, 999999), datetime.datetime(1000, 1, 1), datetime.datetime(999, 12, 31), datetime.datetime(1970, 1, 1), datetime.datetime(2000, 2, 29, 12)])
        else: d = datetime.datetime(rng.randint(1000, 9999), rng.randint(1, 12), rng.randint(1, 28), rng.randint(0, 23), rng.randint(0, 59), rng.randint(0, 59), rng.choice([0, 1, 500000, 999999, rng.randint(0, 999999)]))
        tz = rng.choice([None, None, datetime.timezone.utc, datetime.timezone(datetime.timedelta(minutes=330)), datetime.timezone(datetime.timedelta(minutes=-210))])
        return T.UADateTime(d.replace(tzinfo=tz) if tz else d)
    if k == "bytes": return T.UAByteString(rng.choice([None, b"", bytes(rng.getrandbits(8) for _ in range(rng.randint(1, 7))), b"\x00", b"\xff\xfe\xfd"]))
    if k == "nodeid":
        t = rng.choice("isgb")
        v = str(rng.choice([0, 1, 85, 2**32])) if t == "i" else rng.choice(["abc", rtext(rng, 5), "x y", "a;b=c", "ns=2"])
        try: return T.UANodeId(rng.choice([0, 1, 2, 12]), t, v)
        except Exception: return T.UANodeId(1, "s", "x")
    if k == "loctext": return T.UALocalizedText(rng.choice([rtext(rng), NA, None, "plain"]), rng.choice(LOCALES + [NA, NA]))
    if k == "eu":
        lt = lambda hostile: T.UALocalizedText(rng.choice([rtext(rng, 6, hostile), NA, "m/s"]), rng.choice(LOCALES + [NA]))
        hostile = rng.random() < 0.3
        return T.UAEngineeringUnits(lt(hostile), lt(hostile), rng.choice([0, 5, -1, 2**31 - 1, 4408652]), rng.choice(["http://www.opcfoundation.org/UA/units/un/cefact", "urn:x", "a&b" if hostile else "urn:y", ""]))
    if k == "range":
        a, b = sorted([x for x in (rfloat(rng), rfloat(rng))], key=lambda x: (x != x, x))
        try: return T.UAEURange(a, b)
        except Exception: return T.UAEURange(0.0, 1.0)
    if k == "ext":
        body = rng.choice([T.UAXMLElement("<a xmlns=\"urn:x\">t</a>"), T.UAXMLElement("<b xmlns=\"urn:x\"><c k=\"v\"/></b>"), T.UAByteString(b"ab"), T.UAByteString(b"\x00\x01\x02")])
        return T.UAExtensionObject(type_nodeid=T.UANodeId(rng.choice([0, 1, 3]), "i", str(rng.choice([297, 5, 885, 888, 12]))), body=body)
    if k == "xml": return T.UAXMLElement(rng.choice(["<a xmlns=\"urn:x\">t</a>", "<q:a xmlns:q=\"urn:q\" k=\"v\">x<q:b/>y</q:a>", "<Unknown xmlns=\"%s\">1</Unknown>" % TYPES_NS, "<a xmlns=\"urn:x\">&lt;&amp;</a>"]))
    if k == "enum": return T.UAEnumeration(value=rng.choice([0, 1, 5, NA]), string=rng.choice(["On", "Off", ""]), name=rng.choice(["E", ""]))
    if k == "list":
        if depth >= 2: return gen_value(rng, depth, ["int"])
        ek = rng.choice(["bool", "int", "float", "string", "guid", "datetime", "bytes", "nodeid", "loctext", "eu", "range", "ext", "list"])
        n = rng.randint(0, 4)
        items = []
        first = gen_value(rng, depth + 1, [ek])
        for i in range(n):
            x = gen_value(rng, depth + 1, [ek])
            for _ in range(20):
                if type(x) is type(first): break
                x = gen_value(rng, depth + 1, [ek])
            if type(x) is type(first): items.append(x)
        tn = type(first).__name__[2:]
        if isinstance(first, T.UAListOf): tn = "ListOf" + first.typename
        if isinstance(first, (T.UAEngineeringUnits, T.UAEURange)): tn = "ExtensionObject"
        return T.UAListOf(tuple(items), tn)

def impl_encode(v, xmlns):
    try: return ["ok", v.xml_encode(include_xmlns=xmlns)]
    except BaseException as e: return ["err", type(e).__name__]

def impl_decode(text, wrapped):
    """parse_value_element on the fragment; include_xmlns=False fragments are read inside <Value xmlns=Types>"""
    from opcua_tools.value_parser import parse_value_element
    try:
        if wrapped:
            root = ET.fromstring('<Value xmlns="%s">%s</Value>' % (TYPES_NS, text)); el = next(iter(root))
        else:
            el = ET.fromstring(text)
    except BaseException as e:
        return ["err", "XMLSyntaxError"], None
    try:
        v = parse_value_element(el)
        return ["ok", py2canon(v)], v
    except BaseException as e:
        return ["err", type(e).__name__], None

def dec_model(a):
    a = vlib.untext(a)
    if a[0] == "ok": return ["ok", a[1]]
    if a[0] == "err": return ["err", a[1]]
    return ["model-failure", a]

# ---------------------------------------------------------------- the property, on the implementation
def instant(d):
    """microseconds since 0001-01-01 UTC (naive = UTC); plain arithmetic, no overflow at the boundaries"""
    off = d.utcoffset() or datetime.timedelta(0)
    naive = d.replace(tzinfo=None)
    delta = naive - datetime.datetime(1, 1, 1)
    return (delta.days * 86400 + delta.seconds) * 10**6 + delta.microseconds - ((off.days * 86400 + off.seconds) * 10**6 + off.microseconds)
def same_content(a, b):
    """same type, same content (text up to leading/trailing whitespace; DateTimes as instants; nulls as nulls)"""
    from opcua_tools import ua_data_types as T
    if type(a) is not type(b): return "type-changed"
    if isinstance(a, T.UAFloatingPoint):
        x, y = a.value, b.value
        if uaconv.isna(x) and not isinstance(x, float): return None if (uaconv.isna(y) and not isinstance(y, float)) else "content-changed"
        if isinstance(y, float) and (repr(float(x)) == repr(y)): return None
        return "content-changed"
    if isinstance(a, (T.UAString,)):
        x = None if uaconv.isna(a.value) else a.value.strip(); y = None if uaconv.isna(b.value) else b.value.strip()
        return None if (x or None) == (y or None) else "content-changed"
    if isinstance(a, T.UADateTime): return None if instant(a.value) == instant(b.value) else "content-changed"
    if isinstance(a, T.UALocalizedText):
        n = lambda s: None if uaconv.isna(s) else (s.strip() or None)
        return None if (n(a.text), n(a.locale)) == (n(b.text), n(b.locale)) else "content-changed"
    if isinstance(a, T.UAEngineeringUnits):
        ea, eb = a.ua_eu_information, b.ua_eu_information
        if (ea.namespace_uri.strip(), ea.unit_id) != (eb.namespace_uri.strip(), eb.unit_id): return "content-changed"
        return same_content(ea.display_name, eb.display_name) or same_content(ea.description, eb.description)
    if isinstance(a, T.UAEURange): return None if (repr(a.ua_range.low), repr(a.ua_range.high)) == (repr(b.ua_range.low), repr(b.ua_range.high)) else "content-changed"
    if isinstance(a, T.UAListOf):
        if a.typename != b.typename or len(a.value) != len(b.value): return "content-changed"
        for x, y in zip(a.value, b.value):
            if y is None: return "content-changed"
            r = same_content(x, y)
            if r: return r
        return None
    if isinstance(a, T.UAExtensionObject):
        if a.type_nodeid != b.type_nodeid: return "content-changed"
        return same_content(a.body, b.body)
    if isinstance(a, T.UAXMLElement):
        try: return None if uaconv.el2sx(ET.fromstring(a.value)) == uaconv.el2sx(ET.fromstring(b.value)) else "content-changed"
        except Exception: return "content-changed"
    if isinstance(a, T.UAByteString):
        x = None if uaconv.isna(a.value) else bytes(a.value); y = None if uaconv.isna(b.value) else bytes(b.value)
        return None if x == y else "content-changed"
    if isinstance(a, (T.UABoolean, T.UAInteger)):
        x = None if uaconv.isna(a.value) else a.value; y = None if uaconv.isna(b.value) else b.value
        return None if x == y else "content-changed"
    try: return None if a == b else "content-changed"
    except Exception: return "content-changed"

def causes(v):
    """recorded defects that apply to this value (recursively)"""
    from opcua_tools import ua_data_types as T
    c = set()
    def text_causes(s, escaped):
        if uaconv.isna(s): return
        if "\r" in s: c.add("cr-normalised")
        if not escaped and any(ch in s for ch in "<&"): c.add("unescaped-markup")
    if isinstance(v, T.UAFloatingPoint):
        if isinstance(v.value, float) and v.value != v.value: c.add("nan-to-null")
    elif isinstance(v, T.UAString): text_causes(v.value, True)
    elif isinstance(v, T.UADateTime):
        pass
    elif isinstance(v, T.UANodeId):
        c.add("nodeid-bare-identifier"); text_causes(str(v.value), False)
    elif isinstance(v, T.UALocalizedText): text_causes(v.text, True)
    elif isinstance(v, T.UAEngineeringUnits):
        e = v.ua_eu_information
        for lt in (e.display_name, e.description):
            text_causes(lt.text, True)
            if uaconv.isna(lt.locale): c.add("eu-locale-invented")
            if not uaconv.isna(lt.text) and lt.text != lt.text.strip(): pass
        text_causes(e.namespace_uri, True)
        if e.namespace_uri.strip() == "": c.add("eu-empty-uri")
    elif isinstance(v, T.UAExtensionObject):
        t = v.type_nodeid
        if t.namespace == 0 and t.nodeid_type.value == "i" and t.value in ("885", "888"): c.add("ext-reserved-typeid")
        text_causes(str(t.value), False)
        c |= causes(v.body)
    elif isinstance(v, T.UAListOf):
        for x in v.value: c |= causes(x)
    return c

def cls_of(v):
    from opcua_tools import ua_data_types as T
    n = type(v).__name__
    if isinstance(v, T.UAListOf): return "UAListOf[%s]" % v.typename
    return n

def judge_value(v, xmlns):
    """encode with the implementation, decode with the implementation, compare: [(signature, detail)]"""
    enc = impl_encode(v, xmlns)
    if enc[0] != "ok":
        if enc[1] == "OverflowError": return enc, None, []      # the UTC instant is not representable as a datetime at all
        return enc, None, [("C08/%s/encode-raises" % cls_of(v), "xml_encode raised %s" % enc[1])]
    out, dv = impl_decode(enc[1], not xmlns)
    fails = []
    from opcua_tools import ua_data_types as T
    if isinstance(v, T.UAEnumeration): return enc, out, fails          # C17: written as the Int32 it came from
    if out[0] != "ok":
        fails.append(("C08/%s/%s" % (cls_of(v), "ill-formed" if out[1] == "XMLSyntaxError" else "decode-raises"), "%r -> %s -> %r" % (v, enc[1][:200], out)))
    elif dv is None: fails.append(("C08/%s/decoded-as-None" % cls_of(v), "%r -> %s -> None" % (v, enc[1][:200])))
    else:
        r = same_content(v, dv)
        if r: fails.append(("C08/%s/%s" % (cls_of(v), r), "%r -> %s -> %r" % (v, enc[1][:200], dv)))
    cs = causes(v)
    if fails and cs: fails = [("C08/known:" + "+".join(sorted(cs)), f[0] + ": " + f[1]) for f in fails]
    # well-formed fragment in the UA types namespace
    if xmlns and out[1] != "XMLSyntaxError":
        try:
            root = ET.fromstring(enc[1])
            if ET.QName(root).namespace != TYPES_NS and not isinstance(v, T.UAXMLElement):
                fails.append(("C08/%s/wrong-namespace" % cls_of(v), enc[1][:120]))
        except Exception: pass
    return enc, out, fails

FRAGMENTS = [
    '<Int32 xmlns="%s"> 5 </Int32>', '<Int32 xmlns="%s">+5</Int32>', '<Int32 xmlns="%s">1_0</Int32>', '<Int32 xmlns="%s">x</Int32>', '<Int32 xmlns="%s"></Int32>',
    '<Byte xmlns="%s">-1</Byte>', '<UInt64 xmlns="%s">18446744073709551615</UInt64>', '<Boolean xmlns="%s">True</Boolean>', '<Boolean xmlns="%s">1</Boolean>',
    '<Boolean xmlns="%s"> </Boolean>', '<Boolean xmlns="%s"/>', '<String xmlns="%s"> a b </String>', '<String xmlns="%s"/>', '<Double xmlns="%s">1e3</Double>',
    '<Double xmlns="%s">nan</Double>', '<Double xmlns="%s">abc</Double>', '<Float xmlns="%s"> inf </Float>', '<Guid xmlns="%s">g</Guid>',
    '<Guid xmlns="%s"><String>g</String></Guid>', '<ByteString xmlns="%s">QUJD</ByteString>', '<ByteString xmlns="%s"/>', '<ByteString xmlns="%s">QQ==</ByteString>',
    '<NodeId xmlns="%s">ns=1;i=5</NodeId>', '<NodeId xmlns="%s"><Identifier>ns=1;i=5</Identifier></NodeId>', '<NodeId xmlns="%s">\n<Identifier>i=7</Identifier>\n</NodeId>',
    '<NodeId xmlns="%s"/>', '<NodeId xmlns="%s">bad</NodeId>', '<LocalizedText xmlns="%s"><Locale>en</Locale><Text>x</Text></LocalizedText>',
    '<LocalizedText xmlns="%s"><Text> x </Text></LocalizedText>', '<LocalizedText xmlns="%s"><Locale> </Locale></LocalizedText>', '<LocalizedText xmlns="%s"><Locale>english language</Locale><Text>x</Text></LocalizedText>',
    '<LocalizedText xmlns="%s"/>', '<DateTime xmlns="%s">2020-01-02T03:04:05Z</DateTime>', '<DateTime xmlns="%s">2020-01-02T03:04:05.5+05:30</DateTime>', '<DateTime xmlns="%s">2020-01-02T03:04:05</DateTime>',
    '<DateTime xmlns="%s"/>', '<ListOfInt32 xmlns="%s"><Int32>1</Int32><Int32>2</Int32></ListOfInt32>', '<ListOfInt32 xmlns="%s"><Int32>1</Int32><String>a</String></ListOfInt32>',
    '<ListOfString xmlns="%s"/>', '<ListOfLocalizedText xmlns="%s"><LocalizedText><Text>a</Text></LocalizedText><LocalizedText/></ListOfLocalizedText>',
    '<ExtensionObject xmlns="%s"><TypeId><Identifier>i=297</Identifier></TypeId><Body><Argument><Name>x</Name></Argument></Body></ExtensionObject>',
    '<ExtensionObject xmlns="%s"><Body><Argument/></Body></ExtensionObject>', '<ExtensionObject xmlns="%s"><TypeId><Identifier>i=297</Identifier></TypeId></ExtensionObject>',
    '<ExtensionObject xmlns="%s"><TypeId><Identifier>i=297</Identifier></TypeId><Body><String>s</String></Body></ExtensionObject>',
    '<ExtensionObject xmlns="%s"><TypeId><Identifier>i=885</Identifier></TypeId><Body><Range><Low>0</Low><High>1</High></Range></Body></ExtensionObject>',
    '<ExtensionObject xmlns="%s"><TypeId><Identifier>i=885</Identifier></TypeId><Body><Range><Low>2</Low><High>1</High></Range></Body></ExtensionObject>',
    '<ExtensionObject xmlns="%s"><TypeId><Identifier>i=888</Identifier></TypeId><Body><EUInformation><NamespaceUri>u </NamespaceUri><UnitId> 5 </UnitId><DisplayName><Text>m</Text></DisplayName><Description/></EUInformation></Body></ExtensionObject>',
    '<ExtensionObject xmlns="%s"><TypeId><Identifier>i=888</Identifier></TypeId><Body><EUInformation><NamespaceUri/><UnitId>5</UnitId></EUInformation></Body></ExtensionObject>',
    '<ExtensionObject xmlns="%s"><TypeId><Identifier>i=888</Identifier></TypeId><Body/></ExtensionObject>',
    '<uax:Int32 xmlns:uax="%s">5</uax:Int32>', '<uax:ListOfInt32 xmlns:uax="%s"><uax:Int32>5</uax:Int32></uax:ListOfInt32>', '<Weird xmlns="%s" a="b">t<c/></Weird>',
]
FRAG_NO_NS = ['<Int32>5</Int32>', '<a><b/></a>']

def check(ctx):
    rng = ctx.rng
    ctx.rule = ("values: random values of every supported class (type boundaries, nulls, NaN/inf, hostile text with XML-special and non-ASCII characters, DateTimes with and without "
                "offsets and sub-second parts, lists incl. nested lists) x include_xmlns x process time zone; fragments: a corpus of hand-varied XML fragments (whitespace, prefixes, "
                "missing children, unknown tags, malformed numbers). Distinct by SHA-256 of (value, flag); non-trivial when the value is a list, a structure, holds a null, a non-finite float, "
                "or text with a character outside [A-Za-z0-9].")
    ctx.trusted = ["hand-written Gallina model coq/M_C08.v of every xml_encode and of parse_value_element and its helpers; lxml is not modelled: the model reads the fragment with its own XML reader "
                   "(coq/Xml.v: lexer, attribute parser, tree builder, namespace resolution), proved inverse to the writer's spelling",
                   "external functions supplied as tables by the harness: CPython float(text) with repr of the result; float comparison for UARange(low > high)",
                   "DateTime text outside strict ISO-8601 (dateutil accepts much more), base64 text with characters outside the alphabet, and non-ASCII digits are reported as Unsupported by the model and skipped",
                   "raw XML elements are compared as infosets (namespace, local name, attributes, text, children), not as serialised text",
                   "extraction + driver.ml, cross-checked against vm_compute on a sample"]
    from opcua_tools import ua_data_types as T
    # a fixed corpus that runs first: values that compare equal but must be written differently (anything keyed by == would confuse them)
    cases = [T.UADouble(0.0), T.UADouble(-0.0), T.UAFloat(-0.0), T.UAFloat(0.0), T.UADouble(1.0), T.UADouble(1),
             T.UAListOf((T.UADouble(-0.0), T.UADouble(0.0)), "Double"), T.UAListOf((T.UAFloat(0.0), T.UAFloat(-0.0)), "Float"),
             T.UAEURange(low=-0.0, high=0.0), T.UAEURange(low=0.0, high=-0.0),
             # Float values that are not single-precision numbers (the class holds a Python float: its text must keep every digit)
             T.UAFloat(0.1), T.UAFloat(1 / 3), T.UAFloat(16777217.0), T.UAFloat(1e-45), T.UAFloat(3.4028235677973366e+38), T.UAFloat(-2.5000000000000004), T.UAListOf((T.UAFloat(0.1), T.UAFloat(0.30000000000000004)), "Float"),
             # text with every character XML treats specially, in every order, and the one sequence that is special as a whole
             T.UAString("x[y[0]]>z"), T.UAString("a > b >= c"), T.UAString("]]>"), T.UAString("<![CDATA[x]]>"), T.UAGuid("g]]>"), T.UALocalizedText("t]]>u", "en"),
             T.UAListOf((T.UAString("]]>"), T.UAString("&<>\"'")), "String"), T.UAString("&amp;"), T.UAString("&#65;"),
             # text that Unicode normalisation would rewrite (KELVIN SIGN, OHM SIGN, ANGSTROM SIGN, letter + combining accent) in every class that carries text
             T.UALocalizedText("25 \u212a", "en"), T.UALocalizedText("\u2126", "de"), T.UALocalizedText("e\u0301te\u0301 \u212b", pd.NA), T.UAString("47 k\u2126"), T.UAGuid("\u212a"),
             T.UAListOf((T.UALocalizedText("\u212b", "en"), T.UALocalizedText("\u00c5", "en")), "LocalizedText"),
             T.UAEngineeringUnits(T.UALocalizedText("\u2126", "en"), T.UALocalizedText("ohm (\u2126)", "en"), 5, "http://u"),
             # extension objects whose type id is NOT one of the two encoding ids the library maps to its own classes, with bodies that look like those structures
             T.UAExtensionObject(type_nodeid=T.UANodeId(0, "i", "887"), body=T.UAXMLElement('<EUInformation xmlns="http://opcfoundation.org/UA/2008/02/Types.xsd"><NamespaceUri>http://u</NamespaceUri><UnitId>5</UnitId><DisplayName><Locale>en</Locale><Text>m</Text></DisplayName><Description><Locale>en</Locale><Text>metre</Text></Description></EUInformation>')),
             T.UAExtensionObject(type_nodeid=T.UANodeId(0, "i", "884"), body=T.UAXMLElement('<Range xmlns="http://opcfoundation.org/UA/2008/02/Types.xsd"><Low>1.0</Low><High>2.0</High></Range>')),
             T.UAExtensionObject(type_nodeid=T.UANodeId(1, "i", "888"), body=T.UAXMLElement('<Range xmlns="http://opcfoundation.org/UA/2008/02/Types.xsd"><Low>2.0</Low><High>1.0</High></Range>')),
             # nested lists (depth two and three, an empty inner list), the 64-bit extremes and 2**53 + 1
             T.UAListOf((T.UAListOf((T.UAInt32(1), T.UAInt32(2)), "Int32"), T.UAListOf((), "Int32")), "ListOfInt32"),
             T.UAListOf((T.UAListOf((T.UAListOf((T.UAString("a"),), "String"),), "ListOfString"),), "ListOfListOfString"),
             T.UAInt64(9223372036854775807), T.UAInt64(-9223372036854775808), T.UAUInt64(18446744073709551615), T.UAInt64(9007199254740993),
             T.UAListOf((T.UAUInt64(18446744073709551615), T.UAUInt64(9007199254740993)), "UInt64")]
    n_corpus = len(cases)
    n = 250 if ctx.quick() else 6000
    for _ in range(n):
        v = gen_value(rng)
        if v is None: continue
        cases.append(v)
    tzs = ["UTC", "Asia/Kolkata", "America/St_Johns"]
    reqs = []; meta = []; dom_reqs = []
    unsupported = 0
    for i, v in enumerate(cases):
        os.environ["TZ"] = tzs[i % 3]; time.tzset()
        for xmlns in ((True, False) if (i % 4 == 0 or i < n_corpus) else (True,)):
            enc, out, fails = judge_value(v, xmlns)
            sx = py2sx(v)
            floats = uaconv.texts_of_xml(enc[1] if enc[0] == "ok" and xmlns else ('<V xmlns="%s">%s</V>' % (TYPES_NS, enc[1]) if enc[0] == "ok" else "<a/>"))
            E = uaconv.float_table(floats)
            if sx[0] == "range": E += uaconv.gt_entries([sx[1], sx[2]])
            reqs.append([Sym("c08_roundtrip"), E, xmlns, sx]); meta.append(("value", v, xmlns, enc, out))
            dom_reqs.append([Sym("c08_domain"), E, xmlns, sx])
            feats = [cls_of(v).split("[")[0]]
            s = str(sx)
            nontriv = sx[0] in ("list", "eu", "range", "ext", "loctext") or "[]" in s or any(c in s for c in "<>&\"'") or "nan" in s or "inf" in s or any(ord(c) > 127 for c in s)
            ctx.record(["value", canon_sx(sx), xmlns], nontriv, feats + ["xmlns" if xmlns else "no-xmlns", "tz=" + tzs[i % 3]])
            for sig, detail in fails: ctx.fail(sig, dict(kind="value", value=canon_sx(sx), xmlns=xmlns), detail)
    os.environ["TZ"] = "UTC"; time.tzset()
    # byte strings of a megabyte and more (a firmware image, a type dictionary), alone and in a list: the implementation's own encode -> decode, oracle only
    for expr in BIG_BYTES:
        v = eval(expr, {"T": T, "big_bytes": big_bytes})
        for xmlns in (True, False):
            enc, out, fails = judge_value(v, xmlns)
            ctx.record(["value", expr, xmlns], True, ["ByteString", "megabyte"])
            for sig, detail in fails: ctx.fail(sig, dict(kind="py", expr=expr, xmlns=xmlns), detail[:300])
    frags = [f % TYPES_NS for f in FRAGMENTS] + FRAG_NO_NS
    for f in frags:
        out, dv = impl_decode(f, False)
        reqs.append([Sym("c08_decode"), uaconv.float_table(uaconv.texts_of_xml(f)) + uaconv.gt_entries(["2.0", "1.0", "0.0"]), False, f]); meta.append(("fragment", f, None, None, out))
        ctx.record(["fragment", f], True, ["fragment"])
    ans = vlib.run_model(reqs, shards=12)
    # theorem C08_roundtrip, instantiated: for every generated value inside its domain (clean, dom08) the model's and the implementation's
    # read-back value must be canon v
    dans = vlib.run_model(dom_reqs, shards=12)
    in_dom = 0; dom_by_class = {}
    for (kind, v, xmlns, enc, out), a, da in zip(meta, ans, dans):
        da = vlib.untext(da)
        if da[0] != "true": continue
        in_dom += 1; dom_by_class[cls_of(v).split("[")[0]] = dom_by_class.get(cls_of(v).split("[")[0], 0) + 1
        want = ["ok", da[1]]
        a2 = vlib.untext(a)
        if a2[0] == "err" or dec_model(a2[1]) != want: ctx.disagree("theorem-instance", ["value", canon_sx(py2sx(v)), xmlns], "model round trip %r" % (a2,), want)
        if out != want: ctx.fail("C08/%s/not-canon-in-theorem-domain" % cls_of(v), dict(kind="value", value=canon_sx(py2sx(v)), xmlns=xmlns), "read back as %r, theorem C08_roundtrip says %r" % (out, want))
    ctx.notes["values_in_theorem_domain"] = "%d of %d" % (in_dom, len(dom_reqs)); ctx.notes["in_domain_by_class"] = dom_by_class
    for (kind, v, xmlns, enc, out), a in zip(meta, ans):
        if kind == "value":
            a = vlib.untext(a)
            if a[0] == "err":
                if enc[0] == "ok": ctx.disagree("encode", ["value", canon_sx(py2sx(v)), xmlns], enc, a)
                continue
            if enc[0] != "ok":
                ctx.disagree("encode", ["value", canon_sx(py2sx(v)), xmlns], enc, a[0]); continue
            m_enc = a[0]; m_out = dec_model(a[1])
            if enc[0] == "ok" and enc[1] != m_enc:
                ctx.disagree("encode", ["value", canon_sx(py2sx(v)), xmlns], enc[1], m_enc); continue
            if enc[0] != "ok": continue
        else:
            m_out = dec_model(a)
        if m_out[0] == "err" and m_out[1] == "Unsupported": unsupported += 1; continue
        io = out if out[0] == "ok" else ["err"]
        mo = m_out if m_out[0] == "ok" else ["err"]
        if io != mo:
            ctx.disagree("decode", [kind, canon_sx(py2sx(v)) if kind == "value" else v, xmlns], out, m_out)
    ctx.notes["unsupported_by_model"] = unsupported
    pick = sorted(rng.sample(range(len(reqs)), min(40 if ctx.quick() else 150, len(reqs))))
    pick = [i for i in pick if len(vlib.to_sx(reqs[i])) < 3000]
    ctx.crosscheck = vlib.coq_crosscheck([reqs[i] for i in pick], [ans[i] for i in pick], "c08")

def big_bytes(n, seed=7):
    import random
    return random.Random(seed).randbytes(n)
BIG_BYTES = ["T.UAByteString(big_bytes(2**20 + 1))", "T.UAByteString(bytearray(big_bytes(3 * 2**20 + 5, 8)))", "T.UAByteString(big_bytes(2**20))",
             "T.UAListOf((T.UAByteString(b'ab'), T.UAByteString(big_bytes(2**21 + 2, 9))), 'ByteString')"]

def oracle_case(case):
    from opcua_tools import ua_data_types as T
    if case.get("kind") == "py":
        v = eval(case["expr"], {"T": T, "pd": pd, "datetime": datetime, "float": float, "big_bytes": big_bytes})
        return judge_value(v, case.get("xmlns", True))[2]
    return []
