"""Interception of the file-system / decoding operations of the parse path, without source hooks:
the names os, open, json, ET and process_elem_batch inside the two parser modules are replaced by proxies."""
import builtins, os as _os, json as _json, contextlib, threading
import lxml.etree as _ET

class Injected(Exception): pass
class InjectedBase(BaseException): pass        # an interruption that `except Exception` does not see

class Hook:
    """called before every intercepted operation: hook.op(label, path) may raise or block"""
    def op(self, label, path=None): pass

class _PathProxy:
    def __init__(self, hook): self._h = hook
    def isfile(self, p):
        self._h.op("isfile", p); return _os.path.isfile(p)
    def exists(self, p):
        self._h.op("exists", p); return _os.path.exists(p)
    def __getattr__(self, n): return getattr(_os.path, n)
class _OsProxy:
    def __init__(self, hook): self._h = hook; self.path = _PathProxy(hook)
    def remove(self, p):
        self._h.op("remove", p); return _os.remove(p)
    def __getattr__(self, n): return getattr(_os, n)
class _FileProxy:
    def __init__(self, hook, f, path, mode): self._h, self._f, self._p, self._m = hook, f, path, mode
    def write(self, s):
        self._h.op("write", self._p); return self._f.write(s)
    def readlines(self):
        self._h.op("readlines", self._p); return self._f.readlines()
    def __iter__(self):
        # a reader that streams the lines instead of calling readlines(): the same fault point
        self._h.op("readlines", self._p); return iter(self._f)
    def __enter__(self): return self
    def __exit__(self, *a):
        try:
            if "w" in self._m and a[0] is None: self._h.op("close-w", self._p)
        finally:
            self._f.close()
        return False
    def __getattr__(self, n): return getattr(self._f, n)
class _JsonProxy:
    def __init__(self, hook): self._h = hook
    def loads(self, s, *a, **k):
        self._h.op("loads"); return _json.loads(s, *a, **k)
    def dumps(self, o, *a, **k):
        self._h.op("dumps"); return _json.dumps(o, *a, **k)
    def __getattr__(self, n): return getattr(_json, n)
class _ETProxy:
    def __init__(self, hook): self._h = hook
    def parse(self, p, *a, **k):
        self._h.op("ETparse", p); return _ET.parse(p, *a, **k)
    def iterparse(self, p, *a, **k):
        self._h.op("iterparse", p); return _ET.iterparse(p, *a, **k)
    def __getattr__(self, n): return getattr(_ET, n)

@contextlib.contextmanager
def intercepted(hook):
    import opcua_tools.nodeset_parser as NP
    import opcua_tools.json_parser.parse as JP
    def mk_open(p, mode="r", *a, **k):
        hook.op("open-" + ("w" if "w" in mode else "r"), p)
        return _FileProxy(hook, builtins.open(p, mode, *a, **k), p, mode)
    orig_batch = NP.process_elem_batch
    def batch(*a, **k):
        hook.op("body"); return orig_batch(*a, **k)
    saved = dict(NP_os=NP.os, NP_json=NP.json, NP_ET=NP.ET, JP_json=JP.json, JP_ET=JP.ET, NP_batch=NP.process_elem_batch,
                 NP_open=NP.__dict__.get("open"), JP_open=JP.__dict__.get("open"))
    NP.os = _OsProxy(hook); NP.json = _JsonProxy(hook); NP.ET = _ETProxy(hook); JP.json = _JsonProxy(hook); JP.ET = _ETProxy(hook)
    NP.open = mk_open; JP.open = mk_open; NP.process_elem_batch = batch
    try:
        yield
    finally:
        NP.os = saved["NP_os"]; NP.json = saved["NP_json"]; NP.ET = saved["NP_ET"]; JP.json = saved["JP_json"]; JP.ET = saved["JP_ET"]
        NP.process_elem_batch = saved["NP_batch"]
        for mod, key in ((NP, "NP_open"), (JP, "JP_open")):
            if saved[key] is None: mod.__dict__.pop("open", None)
            else: mod.open = saved[key]

class Tracer(Hook):
    """records the operations; raises at the k-th operation that is not part of the finally block"""
    def __init__(self, k=None, base=False):
        self.k = k; self.trace = []; self.count = 0; self.fired = None; self.base = base
        self._isfile_seen = {}
    def op(self, label, path=None):
        fin = False
        if label == "exists": self._isfile_seen[str(path) + "_parsed.json"] = 0
        if label == "isfile":
            c = self._isfile_seen.get(str(path), 0); self._isfile_seen[str(path)] = c + 1
            fin = c >= 1
        if label == "remove": fin = True
        self.trace.append((label, fin))
        if fin: return
        i = self.count; self.count += 1
        if self.k is not None and i == self.k:
            self.fired = label
            raise (InjectedBase if self.base else Injected)("injected failure at operation %d (%s)" % (i, label))
