"""C12 - closures and type-constrained selections agree with graph reachability."""
import itertools
import pandas as pd
import vlib
from vlib import Sym

NAMES = ["HasSubtype", "HasTypeDefinition", "HasModellingRule", "HasProperty", "HierarchicalReferences", "NonHierarchicalReferences"]

# ------------------------------------------------------------------ implementation side
def canon_err(e): return ["err"]

def impl_closure(E):
    from opcua_tools.navigation import fast_transitive_closure
    try:
        df = fast_transitive_closure(vlib.relabel(pd.DataFrame({"Src": pd.Series([a for a, _ in E], dtype="int64"), "Trg": pd.Series([b for _, b in E], dtype="int64")}), 1))
        return ["ok", sorted([int(a), int(b)] for a, b in zip(df["Src"], df["Trg"]))]
    except BaseException as e:
        return canon_err(e)

def frames(tn, trefs, inst=None):
    type_nodes = pd.DataFrame({"id": pd.Series([n[0] for n in tn], dtype="int64"), "NodeClass": [n[1] for n in tn], "BrowseName": [n[2] for n in tn]})
    def rf(l): return pd.DataFrame({"Src": pd.Series([r[0] for r in l], dtype="int64"), "Trg": pd.Series([r[1] for r in l], dtype="int64"),
                                    "ReferenceType": pd.Series([r[2] for r in l], dtype="int64")})
    return vlib.relabel(type_nodes, 2), vlib.relabel(rf(trefs), 1), (vlib.relabel(rf(inst), 2) if inst is not None else None)

def refs_out(df): return ["ok", sorted([int(a), int(b), int(c)] for a, b, c in zip(df["Src"], df["Trg"], df["ReferenceType"]))]

def edit_in_place(df, before, after):
    """cell assignments on the same DataFrame object: same shape, other content"""
    for i, (r0, r1) in enumerate(zip(before, after)):
        for c, col in enumerate(("Src", "Trg", "ReferenceType")):
            if r0[c] != r1[c]: df.iloc[i, df.columns.get_loc(col)] = r1[c]

def impl_types(kind, types, tn, trefs, before=None):
    """before: type references of the same length; the tables first hold `before` and are queried once, the reference table is then edited in
    place to hold trefs and queried again: the answer must be the one for the tables' current content"""
    from opcua_tools import navigation as nav
    try:
        type_nodes, type_refs, _ = frames(tn, trefs if before is None else before)
        if before is not None:
            try: nav.subtypes_of_nodes(list(types), type_nodes, type_refs)
            except BaseException: pass
            edit_in_place(type_refs, before, trefs)
        if kind == "subtypes":
            df = nav.subtypes_of_nodes(list(types), type_nodes, type_refs); return ["ok", sorted([int(a), int(b)] for a, b in zip(df["type"], df["subtype"]))]
        df = nav.supertypes_of_nodes(list(types), type_nodes, type_refs); return ["ok", sorted([int(a), int(b)] for a, b in zip(df["supertype"], df["type"]))]
    except BaseException as e: return canon_err(e)

SELECTORS = {"HierarchicalReferences": "hierarchical_references", "NonHierarchicalReferences": "non_hierarchical_references",
             "HasProperty": "has_property_references", "HasModellingRule": "has_modelling_rule_references"}
def impl_select(name, inst, tn, trefs, before=None):
    from opcua_tools import navigation as nav
    try:
        type_nodes, type_refs, inst_refs = frames(tn, trefs if before is None else before, inst)
        if before is not None and name != "HasTypeDefinition":
            try: getattr(nav, SELECTORS[name])(inst_references=inst_refs, type_references=type_refs, type_nodes=type_nodes)
            except BaseException: pass
            edit_in_place(type_refs, before, trefs)
        if name == "HasTypeDefinition": return refs_out(nav.has_type_definition_references(inst_refs, type_nodes))
        return refs_out(getattr(nav, SELECTORS[name])(inst_references=inst_refs, type_references=type_refs, type_nodes=type_nodes))
    except BaseException as e: return canon_err(e)
def impl_constrain(inst, types, tn, trefs):
    from opcua_tools import navigation as nav
    try:
        type_nodes, type_refs, inst_refs = frames(tn, trefs, inst)
        return refs_out(nav.constrain_to_reference_type(inst_refs, type_nodes, type_refs, list(types)))
    except BaseException as e: return canon_err(e)
def impl_mr(which, inst, tn, trefs):
    from opcua_tools import navigation as nav
    f = {"has": nav.hierarchical_references_trg_has_modelling_rule, "no-h": nav.hierarchical_references_trg_has_no_modelling_rule,
         "no-n": nav.non_hierarchical_references_trg_has_no_modelling_rule}[which]
    try:
        type_nodes, type_refs, inst_refs = frames(tn, trefs, inst)
        return refs_out(f(references=inst_refs, type_references=type_refs, type_nodes=type_nodes))
    except BaseException as e: return canon_err(e)

_twin = [0]
def impl_circular(ns_of, refs, tn):
    """ns_of: id -> namespace index (0/1); circular references of namespace 1 through a real UAGraph"""
    from opcua_tools.ua_graph import UAGraph
    from opcua_tools.ua_data_types import UANodeId
    try:
        ids = sorted(ns_of)
        names = {n[0]: (n[1], n[2]) for n in tn}
        # every second graph also has a namespace whose URI differs from the queried one by a final slash only, listed BEFORE it (it holds one node of its own)
        _twin[0] += 1; twin = _twin[0] % 2 == 1
        at = (lambda k: 2 if k == 1 else k) if twin else (lambda k: k)
        nodes = pd.DataFrame({"id": pd.Series(ids + ([max(ids) + 1] if twin else []), dtype="int64"),
                              "NodeClass": [names.get(i, ("UAObject", "N%d" % i))[0] for i in ids] + (["UAObject"] if twin else []),
                              "BrowseName": [names.get(i, ("UAObject", "N%d" % i))[1] for i in ids] + (["Twin"] if twin else []),
                              "NodeId": [UANodeId(at(ns_of[i]), "i", str(i)) for i in ids] + ([UANodeId(1, "i", "1")] if twin else []),
                              "ns": [at(ns_of[i]) for i in ids] + ([1] if twin else [])})
        _, rdf, _ = frames(tn, refs)
        nodes = vlib.relabel(nodes, 1)
        g = UAGraph(nodes=nodes, references=rdf, namespaces=["http://opcfoundation.org/UA/", "urn:x"] if not twin else ["http://opcfoundation.org/UA/", "urn:x/", "urn:x"], models=[])
        df = g.find_circular_reference_nodes("urn:x")
        return ["ok", sorted(int(n.value) for n in df["NodeId"])]
    except BaseException as e: return canon_err(e)

# ------------------------------------------------------------------ independent oracles
def reach(E):
    adj = {}
    for a, b in E: adj.setdefault(a, set()).add(b)
    out = {}
    for a in set(x for e in E for x in e):
        seen = set(); stack = list(adj.get(a, ()))
        while stack:
            x = stack.pop()
            if x in seen: continue
            seen.add(x); stack.extend(adj.get(x, ()))
        out[a] = seen
    return out
def spec_closure(E):
    if any(a == b for a, b in E): return ["err"]
    r = reach(E)
    return ["ok", sorted([a, b] for a in r for b in r[a] if a != b)]
def spec_cycles(E):
    r = reach(E)
    return sorted(a for a in r if a in r[a])
def type_id(tn, name):
    for n in tn:
        if n[1] == "UAReferenceType" and n[2] == name: return n[0]
    return None
def spec_subtypes(t, hst, trefs):
    """the types reachable from t along HasSubtype plus t itself (what the property says)"""
    E = [(r[0], r[1]) for r in trefs if r[2] == hst]
    return reach(E).get(t, set()) | {t}
def spec_select(inst, types, hst, trefs):
    ok = set()
    for t in types: ok |= spec_subtypes(t, hst, trefs)
    return sorted(list(r) for r in inst if r[2] in ok)

def dec(a):
    a = vlib.untext(a)
    if a[0] == "ok":
        def conv(x): return [conv(y) for y in x] if isinstance(x, list) else int(x)
        return ["ok", sorted(conv(a[1]))]
    if a[0] == "err": return ["err"]
    return ["model-failure", a]


def hst_selfloop(tn, trefs):
    hst = type_id(tn, "HasSubtype")
    return any(r[0] == r[1] and r[2] == hst for r in trefs)

def judge(kind, p):
    """runs the implementation on one case and the property oracle on its answer.
       returns (implementation output, non-trivial?, extra features, [(signature, detail)])"""
    fails = []
    if kind == "closure":
        p = [tuple(e) for e in p]
        out = impl_closure(p); spec = spec_closure(p)
        r = reach(p); nontriv = any(len(r[a_]) > len(set(b for x, b in p if x == a_)) for a_ in r)
        if out != spec: fails.append(("C12/closure", "closure %r, reachability says %r" % (out, spec)))
        return out, nontriv, [], fails
    if kind == "cycles":
        p = [tuple(e) for e in p]
        if any(a_ == b_ for a_, b_ in p): return None, False, [], []
        ns_of = {x: 1 for e in p for x in e}; ns_of[900] = 0; ns_of[901] = 0; ns_of[902] = 0
        tn = [[900, "UAReferenceType", "HierarchicalReferences"], [901, "UAReferenceType", "HasSubtype"]]
        refs_all = [[a_, b_, 900] for a_, b_ in p] + [[902, 900, 901]]
        out = impl_circular(ns_of, refs_all, tn)
        spec = ["ok", spec_cycles(p)]
        if out != spec: fails.append(("C12/cycles", "circular nodes %r, cycles are %r" % (out, spec)))
        return out, bool(spec[1]), ["cycle" if spec[1] else "acyclic"], fails
    if kind in ("subtypes", "supertypes", "subtypes-inplace", "supertypes-inplace"):
        before = None
        if kind.endswith("-inplace"): before, p, kind = p[0], p[1:], kind[:-len("-inplace")]
        q, tn, trefs = p
        out = impl_types(kind, q, tn, trefs, before)
        hst = type_id(tn, "HasSubtype")
        nontriv = hst is not None and any(len(spec_subtypes(t, hst, trefs)) > 1 for t in q)
        if hst is not None and not hst_selfloop(tn, trefs):
            ends = set(x for r in trefs for x in r[:2])
            if kind == "subtypes": spec = sorted([t, s] for t in set(q) for s in spec_subtypes(t, hst, trefs))
            else:
                allt = ends | set(q)
                spec = sorted([s, t] for t in set(q) for s in allt if t in spec_subtypes(s, hst, trefs))
            if out[0] != "ok": fails.append(("C12/" + kind, "raised, expected %r" % spec))
            elif out[1] != spec:
                missing = [x for x in spec if x not in out[1]]
                if all(x[0] == x[1] and x[0] not in ends for x in missing) and all(x in spec for x in out[1]):
                    fails.append(("C12/isolated-type", "a type that occurs in no type reference is not reported as its own subtype"))
                else:
                    fails.append(("C12/" + kind, "%s %r, expected %r" % (kind, out, spec)))
        return out, nontriv, [], fails
    if kind in ("constrain", "select", "htd", "select-inplace"):
        if kind == "constrain": inst, q, tn, trefs = p; out = impl_constrain(inst, q, tn, trefs); types = q
        elif kind == "select": nm, inst, tn, trefs = p; out = impl_select(nm, inst, tn, trefs); types = [type_id(tn, nm)]
        elif kind == "select-inplace": before, nm, inst, tn, trefs = p; out = impl_select(nm, inst, tn, trefs, before); types = [type_id(tn, nm)]
        else: inst, tn, trefs = p; out = impl_select("HasTypeDefinition", inst, tn, trefs); types = [type_id(tn, "HasTypeDefinition")]
        hst = type_id(tn, "HasSubtype")
        nontriv = hst is not None and types[0] is not None and any(len(spec_subtypes(t, hst, trefs)) > 1 for t in types)
        if hst is not None and None not in types and (kind == "htd" or not hst_selfloop(tn, trefs)):
            if kind == "htd": spec = sorted(list(r) for r in inst if r[2] == types[0])
            else: spec = spec_select(inst, types, hst, trefs)
            if out[0] != "ok": fails.append(("C12/select", "raised, expected %r" % spec))
            elif out[1] != spec:
                ends = set(x for r in trefs for x in r[:2])
                lost = [r for r in spec if r not in out[1]]
                if all(r[2] in types and r[2] not in ends for r in lost) and all(r in spec for r in out[1]):
                    fails.append(("C12/isolated-type", "references whose type occurs in no type reference are not selected by that type"))
                else:
                    fails.append(("C12/select", "selected %r, expected %r" % (out, spec)))
        return out, nontriv, [], fails
    if kind.startswith("mr-"):
        inst, tn, trefs = p
        which = {"mr-has": "has", "mr-no-h": "no-h", "mr-no-n": "no-n"}[kind]
        out = impl_mr(which, inst, tn, trefs)
        hst = type_id(tn, "HasSubtype"); hmr = type_id(tn, "HasModellingRule")
        base = type_id(tn, "NonHierarchicalReferences" if which == "no-n" else "HierarchicalReferences")
        ok_types = hst is not None and hmr is not None and base is not None and not hst_selfloop(tn, trefs)
        mr_src = set(r[0] for r in spec_select(inst, [hmr], hst, trefs)) if ok_types else set()
        if ok_types:
            sel = spec_select(inst, [base], hst, trefs)
            spec = [r for r in sel if (r[1] in mr_src) == (which == "has")]
            ends = set(x for r in trefs for x in r[:2])
            if all(t in ends for t in (hmr, base)):                                   # else: region of the isolated-type finding
                if out[0] == "err":
                    if which == "has" and not mr_src: fails.append(("C12/has-mr-keyerror", "raises when no HasModellingRule reference exists"))
                    else: fails.append(("C12/mr-split", "raised, expected %r" % spec))
                elif out[1] != spec:
                    if which == "has" and sorted(set(map(tuple, out[1]))) == sorted(set(map(tuple, spec))) and len(out[1]) > len(spec):
                        fails.append(("C12/has-mr-duplicates", "reference returned once per modelling rule of its target"))
                    else: fails.append(("C12/mr-split", "got %r, expected %r" % (out, spec)))
        return out, bool(mr_src), [], fails
    if kind == "circular":
        ns_of, allrefs, tn = p
        if not isinstance(ns_of, dict): ns_of = {int(k): v for k, v in ns_of}
        out = impl_circular(ns_of, allrefs, tn)
        hst = type_id(tn, "HasSubtype"); hier = type_id(tn, "HierarchicalReferences")
        if hst is not None and hier is not None and out[0] == "ok" and not hst_selfloop(tn, allrefs):
            ends = set(x for r in allrefs for x in r[:2])
            if hier in ends:
                touching = [r for r in allrefs if ns_of.get(r[0]) == 1 or ns_of.get(r[1]) == 1]
                E = [(r[0], r[1]) for r in spec_select(touching, [hier], hst, allrefs)]
                if not any(a_ == b_ for a_, b_ in E):
                    spec = spec_cycles(E)
                    if out[1] != spec: fails.append(("C12/cycles", "circular nodes %r, cycles are %r" % (out, spec)))
        return out, out[0] == "ok" and bool(out[1]), [], fails
    raise ValueError(kind)

# ------------------------------------------------------------------ generators
def all_digraphs(n):
    pairs = [(a, b) for a in range(n) for b in range(n) if a != b]
    for mask in range(1, 2 ** len(pairs)):
        yield [pairs[i] for i in range(len(pairs)) if mask >> i & 1]

def random_graph(rng, nmax):
    n = rng.randint(1, nmax); shape = rng.choice(["tree", "dag", "cyclic", "disconnected", "chain", "dense"])
    ids = rng.sample(range(1, 5 * nmax + 5), n)
    E = []
    if shape == "tree":
        for i in range(1, n): E.append((ids[rng.randrange(i)], ids[i]))
    elif shape == "chain":
        E = [(ids[i], ids[i + 1]) for i in range(n - 1)]
    elif shape == "dag":
        for i in range(n):
            for j in range(i + 1, n):
                if rng.random() < min(1.0, 2.5 / max(1, n)): E.append((ids[i], ids[j]))
    elif shape == "dense":
        n = min(n, 8); ids = ids[:n]
        E = [(a, b) for a in ids for b in ids if a != b and rng.random() < 0.5]
    else:
        m = rng.randint(0, 2 * n)
        for _ in range(m):
            a, b = rng.choice(ids), rng.choice(ids)
            if a != b: E.append((a, b))
        if shape == "disconnected" and n > 3:
            half = set(ids[:n // 2]); E = [(a, b) for a, b in E if (a in half) == (b in half)]
    if E and rng.random() < 0.4: E += [rng.choice(E) for _ in range(rng.randint(1, 3))]   # parallel edges
    rng.shuffle(E)
    feats = [shape] + (["parallel"] if len(set(E)) < len(E) else [])
    if rng.random() < 0.04 and ids:
        a = rng.choice(ids); E.append((a, a)); feats.append("self-loop")
    return E, feats

def random_types(rng):
    """a reference-type table + type references + instance references"""
    base = 100
    tn = []; ids = {}
    names = list(NAMES)
    if rng.random() < 0.05: names.remove(rng.choice(names))                 # a required type is missing -> IndexError
    extra = ["T%d" % i for i in range(rng.randint(0, 6))]
    for k, nm in enumerate(names + extra):
        ids[nm] = base + k; tn.append([base + k, "UAReferenceType", nm])
    if rng.random() < 0.3: tn.append([base + 50, "UAObjectType", rng.choice(NAMES)])     # same browse name, other class
    if rng.random() < 0.15 and "HasProperty" in ids: tn.append([base + 51, "UAReferenceType", "HasProperty"])  # duplicate name: first wins
    rng.shuffle(tn)
    hst = ids.get("HasSubtype", 999)
    trefs = []
    parents = [n for n in ("HierarchicalReferences", "NonHierarchicalReferences") if n in ids]
    placed = list(parents)
    for nm in [n for n in names + extra if n not in parents]:
        if rng.random() < 0.12: continue                                       # isolated type: no type reference mentions it
        if placed:
            p = rng.choice(placed); trefs.append([ids[p], ids[nm], hst]); placed.append(nm)
            if rng.random() < 0.1: trefs.append([ids[rng.choice(placed)], ids[nm], hst])   # second parent / parallel
    for nm in parents:
        if rng.random() < 0.8: trefs.append([base + 90, ids[nm], hst])        # common root "References"
    if rng.random() < 0.3: trefs.append([ids.get("HasProperty", base), base + 60, ids.get("HasTypeDefinition", base + 1)])  # non-subtype type reference
    rng.shuffle(trefs)
    nodes = list(range(1, rng.randint(2, 9)))
    tids = [n[0] for n in tn if n[1] == "UAReferenceType"] + [base + 70]
    inst = []
    for _ in range(rng.randint(0, 14)):
        inst.append([rng.choice(nodes), rng.choice(nodes), rng.choice(tids)])
    if inst and rng.random() < 0.3: inst.append(list(rng.choice(inst)))      # duplicate reference row
    return tn, trefs, inst, ids

# ------------------------------------------------------------------ the check
def check(ctx):
    rng = ctx.rng
    ctx.rule = ("closure: every non-empty loop-free digraph on <= N nodes (N=3 quick, 4 thorough) plus random trees, chains, DAGs, cyclic, dense and disconnected graphs "
                "with parallel edges and occasional self references; selections: random reference-type hierarchies (multiple parents, isolated types, duplicate and missing names) "
                "x every selector and every type; cycles through a real UAGraph.  Distinct by SHA-256 of the case; non-trivial when the graph has a path of length >= 2 "
                "(closure), or the hierarchy has a proper subtype of the queried type / a modelling rule on some target (selectors), or a cycle exists (circular).")
    ctx.trusted = ["hand-written Gallina model coq/M_C12.v of navigation.fast_transitive_closure, typing_transitive_reflexive, subtypes/supertypes_of_nodes, "
                   "constrain_to_reference_type, the selectors and UAGraph.find_circular_reference_nodes (scipy sparse boolean product modelled as relation composition; pandas isin/join as filters)",
                   "row order of the returned tables is not part of the property: outputs are compared as sorted multisets",
                   "extraction + driver.ml, cross-checked against vm_compute on a sample"]
    N = 3 if ctx.quick() else 4
    cases = []
    for n in range(2, N + 1):
        for E in all_digraphs(n): cases.append(("closure", E, ["exhaustive-%d" % n]))
    cases.append(("closure", [], ["empty"]))
    # chains with parallel references: as many surplus copies as there are pairs two steps apart (a count-based stopping test would see "nothing new")
    for n_ in (4, 5, 6, 8):
        ch_ = [(i, i + 1) for i in range(1, n_)]
        cases.append(("closure", ch_ + [ch_[0]] * (n_ - 2), ["chain", "parallel"]))
        cases.append(("closure", ch_ + [ch_[i % len(ch_)] for i in range(n_ - 2)], ["chain", "parallel"]))
        cases.append(("closure", ch_ + [ch_[-1]] * (n_ - 3), ["chain", "parallel"]))
    # two cycles joined by a path through a node that lies on neither; a ring with a tail; a figure of eight
    for E_ in ([(1, 2), (2, 1), (2, 3), (3, 4), (4, 5), (5, 4)], [(1, 2), (2, 3), (3, 1), (3, 4), (4, 5)], [(1, 2), (2, 3), (3, 1), (3, 4), (4, 5), (5, 3), (5, 6), (6, 7), (7, 8), (8, 7)]):
        cases.append(("closure", E_, ["cyclic", "bridge"]))
    for _ in range(150 if ctx.quick() else 3000):
        E, f = random_graph(rng, 14 if ctx.quick() else 40); cases.append(("closure", E, f))
    reqs = []; meta = []
    for kind, E, feats in cases:
        reqs.append([Sym("c12_closure"), [list(e) for e in E]]); meta.append(("closure", E, feats))
        if feats[0] in ("cyclic", "dense", "dag") or feats[0].startswith("exhaustive"):
            if not (feats[0] == "exhaustive-4" and rng.random() < 0.8):
                reqs.append([Sym("c12_cycles"), [list(e) for e in E]]); meta.append(("cycles", E, feats))
    # type selections
    for it in range(60 if ctx.quick() else 1500):
        tn, trefs, inst, ids = random_types(rng)
        tids = sorted(set(n[0] for n in tn))
        q = rng.sample(tids, min(len(tids), rng.randint(1, 3)))
        if it % 10 == 5 and all(n_ in ids for n_ in ("HasSubtype", "HasModellingRule", "HierarchicalReferences")):
            # HasModellingRule placed BELOW HierarchicalReferences (a hierarchy may put it anywhere): the modelling-rule split must still look at all references
            hmr_, hier_ = ids["HasModellingRule"], ids["HierarchicalReferences"]
            trefs = [r for r in trefs if not (r[1] == hmr_ and r[2] == ids["HasSubtype"])] + [[hier_, hmr_, ids["HasSubtype"]]]
            if len(inst) >= 2: inst = inst + [[inst[0][1], inst[1][0], hmr_], [inst[1][1], inst[0][0], hmr_]]
        if it % 10 == 0 and "HasSubtype" in ids:
            # a reference type that sits in no HasSubtype reference but IS mentioned by a type reference (organised by a folder, say), queried itself
            lone = 180; tn = tn + [[lone, "UAReferenceType", "Lonely"]]; tids = tids + [lone]
            trefs = trefs + [[190, lone, ids.get("HasProperty", 100)]]
            inst = inst + [[1, 2, lone], [2, 1, lone]]
            q = [lone] + q[:1]
        reqs.append([Sym("c12_subtypes"), q, tn, trefs]); meta.append(("subtypes", (q, tn, trefs), []))
        reqs.append([Sym("c12_supertypes"), q, tn, trefs]); meta.append(("supertypes", (q, tn, trefs), []))
        reqs.append([Sym("c12_constrain"), inst, q, tn, trefs]); meta.append(("constrain", (inst, q, tn, trefs), []))
        for nm in ["HierarchicalReferences", "NonHierarchicalReferences", "HasProperty", "HasModellingRule"]:
            reqs.append([Sym("c12_select"), nm, inst, tn, trefs]); meta.append(("select", (nm, inst, tn, trefs), []))
        reqs.append([Sym("c12_htd"), inst, tn]); meta.append(("htd", (inst, tn, trefs), []))
        # the selection of the HasSubtype references themselves, through the public id_col argument (tables keyed by another column than "id")
        if it % 4 == 0 and "HasSubtype" in ids:
            from opcua_tools import navigation as nav_
            try:
                tnodes_, trefs_, _ = frames(tn, trefs)
                tnodes_["key"] = tnodes_["id"] + 5000
                rk_ = trefs_.copy()
                for c_ in ("Src", "Trg", "ReferenceType"): rk_[c_] = rk_[c_] + 5000
                got_ = sorted([int(a_) - 5000, int(b_) - 5000, int(c_) - 5000] for a_, b_, c_ in zip(*[nav_.has_subtype_references(rk_, tnodes_, "key")[c] for c in ("Src", "Trg", "ReferenceType")]))
                first_ = [n[0] for n in tn if n[1] == "UAReferenceType" and n[2] == "HasSubtype"][0]
                want_ = sorted(list(r) for r in trefs if r[2] == first_)
                ctx.record(["hst-idcol", tn, trefs], True, ["hst-idcol"])
                if got_ != want_: ctx.fail("C12/select", dict(kind="hst-idcol", args=[tn, trefs]), "has_subtype_references(.., id_col='key') selected %r, the HasSubtype references are %r" % (got_, want_))
            except BaseException as e_:
                ctx.fail("C12/select", dict(kind="hst-idcol", args=[tn, trefs]), "has_subtype_references(.., id_col='key') raised %s" % type(e_).__name__)
        # the same table objects, the hierarchy edited in place between two queries (one subtype reference re-parented: same shape, other content)
        hs = [i for i, r in enumerate(trefs) if r[2] == ids.get("HasSubtype", 999)]
        if hs and len(tids) >= 3:
            i = rng.choice(hs); trefs2 = [list(r) for r in trefs]
            trefs2[i][0] = rng.choice([t for t in tids if t not in (trefs[i][0], trefs[i][1])])
            reqs.append([Sym("c12_subtypes"), q, tn, trefs2]); meta.append(("subtypes-inplace", (trefs, q, tn, trefs2), ["edited-in-place"]))
            reqs.append([Sym("c12_supertypes"), q, tn, trefs2]); meta.append(("supertypes-inplace", (trefs, q, tn, trefs2), ["edited-in-place"]))
            nm = rng.choice(["HierarchicalReferences", "NonHierarchicalReferences", "HasProperty"])
            reqs.append([Sym("c12_select"), nm, inst, tn, trefs2]); meta.append(("select-inplace", (trefs, nm, inst, tn, trefs2), ["edited-in-place"]))
        reqs.append([Sym("c12_has_mr"), inst, tn, trefs]); meta.append(("mr-has", (inst, tn, trefs), []))
        reqs.append([Sym("c12_no_mr"), "HierarchicalReferences", inst, tn, trefs]); meta.append(("mr-no-h", (inst, tn, trefs), []))
        reqs.append([Sym("c12_no_mr"), "NonHierarchicalReferences", inst, tn, trefs]); meta.append(("mr-no-n", (inst, tn, trefs), []))
        # circular: instance references among nodes, half of them in namespace 1; type nodes live in namespace 0
        ns_of = {i: rng.choice([0, 1]) for i in set(x for r in inst for x in r[:2])}
        for n in tn: ns_of[n[0]] = 0
        for r in trefs + inst:
            for x in r: ns_of.setdefault(x, 0)
        allrefs = inst + trefs
        reqs.append([Sym("c12_circular"), sorted(i for i in ns_of if ns_of[i] == 1), allrefs, tn]); meta.append(("circular", (ns_of, allrefs, tn), []))
    ans = vlib.run_model(reqs, shards=12)

    for jx, ((kind, p, feats), a) in enumerate(zip(meta, ans)):
        vlib.pandas_mode(jx)
        mo = dec(a)
        out, nontriv, extra, fails = judge(kind, p)
        if out is None: continue
        ctx.record([kind, p if kind != "circular" else [sorted(p[0].items()), p[1], p[2]]], nontriv, feats + extra + [kind])
        if out != mo: ctx.disagree(kind, [kind, p if kind != "circular" else [sorted(p[0].items()), p[1], p[2]]], out, mo)
        for sig, detail in fails:
            ctx.fail(sig, dict(kind=kind, args=p if kind != "circular" else [sorted(p[0].items()), p[1], p[2]]), detail)
    # node ids beyond 16 bits (a namespace of 70000 nodes): a few far-apart references without any cycle, and the same with one two-cycle closed
    # (oracle only: the model's id lists are not meant for this size)
    for pairs in ([(30000, 100), (61457, 7296), (69998, 69999)], [(30000, 100), (61457, 7296), (69998, 69999), (100, 30000)], [(65535, 65536), (65536, 65537), (131, 65535)]):
        out, nontriv, _, fails = wide_circular(70000, pairs)
        ctx.record(["circular-wide", 70000, pairs], True, ["circular", "wide-ids"])
        for sig, detail in fails: ctx.fail(sig, dict(kind="circular-wide", n=70000, pairs=pairs), detail)
    k = 40 if ctx.quick() else 200
    pick = sorted(rng.sample(range(len(reqs)), min(k, len(reqs))))
    pick = [i for i in pick if len(vlib.to_sx(reqs[i])) < 4000]
    ctx.crosscheck = vlib.coq_crosscheck([reqs[i] for i in pick], [ans[i] for i in pick], "c12")
    ctx.exhaustive = True
    ctx.notes["exhaustive_scope"] = "all non-empty loop-free digraphs on <= %d labelled nodes" % N

WIDE_TN = [[1, "UAReferenceType", "References"], [2, "UAReferenceType", "HierarchicalReferences"], [3, "UAReferenceType", "HasSubtype"], [4, "UAReferenceType", "Organizes"]]
WIDE_TREFS = [[1, 2, 3], [2, 3, 3], [2, 4, 3]]
def wide_circular(n, pairs):
    """a namespace of n nodes (ids beyond 16 bits) with the given Organizes references among them: the case is stored as (n, pairs)"""
    ns_of = {i: 1 for i in range(5, n)}
    for t in WIDE_TN: ns_of[t[0]] = 0
    return judge("circular", (ns_of, [[a, b, 4] for a, b in pairs] + WIDE_TREFS, WIDE_TN))

def oracle_case(case):
    """property oracle on a stored case: list of (signature, detail)"""
    if case.get("kind") == "circular-wide": return wide_circular(case["n"], case["pairs"])[3]
    if case.get("kind") == "hst-idcol":
        from opcua_tools import navigation as nav_
        tn, trefs = case["args"]
        try:
            tnodes_, trefs_, _ = frames(tn, trefs); tnodes_["key"] = tnodes_["id"] + 5000
            rk_ = trefs_.copy()
            for c_ in ("Src", "Trg", "ReferenceType"): rk_[c_] = rk_[c_] + 5000
            got_ = sorted([int(a_) - 5000, int(b_) - 5000, int(c_) - 5000] for a_, b_, c_ in zip(*[nav_.has_subtype_references(rk_, tnodes_, "key")[c] for c in ("Src", "Trg", "ReferenceType")]))
            first_ = [n[0] for n in tn if n[1] == "UAReferenceType" and n[2] == "HasSubtype"][0]
            want_ = sorted(list(r) for r in trefs if r[2] == first_)
            return [] if got_ == want_ else [("C12/select", "has_subtype_references(.., id_col='key') selected %r, expected %r" % (got_, want_))]
        except BaseException as e_:
            return [("C12/select", "has_subtype_references(.., id_col='key') raised %s" % type(e_).__name__)]
    return judge(case["kind"], case["args"])[3]
