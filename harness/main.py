import sys, os, json, importlib, traceback
import vlib

def main():
    prop = sys.argv[1]
    mode = sys.argv[2] if len(sys.argv) > 2 else os.environ.get("VERIF_TIER", "quick")
    seed = int(os.environ.get("VERIF_SEED", "20260930"))
    mod = importlib.import_module("c%s" % prop[1:])
    if mode == "--replay":
        rp = json.load(open(sys.argv[3]))
        ctx = vlib.Ctx(prop, "quick", rp.get("seed", seed))
        ok, out = vlib.build()
        if not ok: print("build failed", out); return 2
        if isinstance(rp.get("case"), dict) and rp["case"].get("pandas_copy_on_write"):
            import pandas as pd; pd.set_option("mode.copy_on_write", True)       # the input failed with pandas' copy-on-write mode on
        if rp.get("kind") == "failing-input" and hasattr(mod, "oracle_case"):
            res = mod.oracle_case(rp["case"]); bad = False
            for sig, detail in res:
                if ctx.fail(sig, rp["case"], detail): bad = True; print("still fails: %s: %s" % (sig, detail[:300]))
                else: print("KNOWN-FINDING: property=%s %s" % (prop, detail[:300]))
        elif hasattr(mod, "replay"): bad = mod.replay(ctx, rp)
        else:
            mod.check(ctx); bad = bool(ctx.failures or ctx.disagreements)
        if bad:
            print("VIOLATION property=%s replay=%s" % (prop, sys.argv[3])); return 1
        print("replay: property holds on this input now"); return 0
    ctx = vlib.Ctx(prop, mode, seed)
    ctx.coq = vlib.coq_step(prop)
    if not any(f.startswith("build") for f in ctx.coq["failed"]):
        # replay the recorded findings on the implementation: open ones are announced, fixed ones must stay fixed
        import re
        for e in ctx.known:
            try:
                res = mod.oracle_case(e["replay"]["case"]) if hasattr(mod, "oracle_case") else None
            except Exception:
                res = [("crash", traceback.format_exc()[-300:])]
            if res is None: continue
            def owns(e, sig):
                m = re.fullmatch(r"[^/]+/known:(.+)", sig)
                if m and e.get("cause"): return e["cause"] in m.group(1).split("+")
                return bool(re.fullmatch(e["signature"], sig))
            hit = [r for r in res if owns(e, r[0])]
            if e["status"] == "open":
                e["still_fails"] = bool(hit)
                for r in res:
                    if not owns(e, r[0]): ctx.fail(r[0], e["replay"]["case"], r[1])
            else:
                e["still_fails"] = bool(res)
                for r in res: ctx.failures.append(dict(signature=r[0], case=e["replay"]["case"], detail="fixed finding %s is back: %s" % (e["id"], r[1])))
        try:
            mod.check(ctx)
        except Exception:
            ctx.coq["failed"].append("harness crashed: " + traceback.format_exc()[-1500:])
    return ctx.finish()

if __name__ == "__main__":
    sys.exit(main())
