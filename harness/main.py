import sys, os, json, importlib, traceback
import vlib

def main():
    prop = sys.argv[1]
    mode = sys.argv[2] if len(sys.argv) > 2 else os.environ.get("VERIF_TIER", "quick")
    seed = int(os.environ.get("VERIF_SEED", "20260930"))
    mod = importlib.import_module("c%s" % prop[1:])
    if mode == "--replay":
        rp = json.load(open(sys.argv[3]))
        ctx = vlib.Ctx(prop, "quick", rp.get("seed", seed))
        ok, out = vlib.build()
        if not ok: print("build failed", out); return 2
        bad = mod.replay(ctx, rp)
        if bad:
            print("VIOLATION property=%s replay=%s" % (prop, sys.argv[3])); return 1
        print("replay: property holds on this input now"); return 0
    ctx = vlib.Ctx(prop, mode, seed)
    ctx.coq = vlib.coq_step(prop)
    if not any(f.startswith("build") for f in ctx.coq["failed"]):
        try:
            mod.check(ctx)
        except Exception:
            ctx.coq["failed"].append("harness crashed: " + traceback.format_exc()[-1500:])
    return ctx.finish()

if __name__ == "__main__":
    sys.exit(main())
