"""C02 - parse property (shared engine in parseprops.py)."""
import parseprops
def check(ctx):
    ctx.rule = parseprops.RULE; ctx.trusted = list(parseprops.TRUSTED)
    parseprops.run(ctx, "C02")
oracle_case = parseprops.oracle_case
