"""Shared machinery of the checks: sexp wire format, model runner, Coq step, evidence, verdicts."""
import os, sys, json, hashlib, random, subprocess, time, re, collections, traceback, fcntl

VERIF = os.path.dirname(os.path.dirname(os.path.abspath(__file__)))
REPO = os.environ.get("VERIF_REPO", "/repo")
COQ = os.path.join(VERIF, "coq")
RUNNER = os.path.join(COQ, "extract", "runner")
WORK = os.path.join(VERIF, ".work")

# ----------------------------------------------------------------------------- sexp
def to_sx(x):
    """python value -> sexp text.  str/bytes: atom; int: decimal atom; bool: true/false; None: (); list/tuple: list"""
    if x is None: return "()"
    if x is True: return "x" + b"true".hex()
    if x is False: return "x" + b"false".hex()
    if isinstance(x, int): return "x" + str(x).encode().hex()
    if isinstance(x, str): return "x" + x.encode("utf-8", "surrogateescape").hex()
    if isinstance(x, (bytes, bytearray)): return "x" + bytes(x).hex()
    if isinstance(x, (list, tuple)): return "(" + " ".join(to_sx(y) for y in x) + ")"
    raise TypeError("to_sx: %r" % (x,))

class Sym(str):
    """a symbol inside a request (same wire form as a string; kept distinct for readability)"""

def parse_sx(t):
    """sexp text -> nested lists with bytes atoms"""
    pos = 0; n = len(t); stack = [[]]
    while pos < n:
        c = t[pos]
        if c == "(": stack.append([]); pos += 1
        elif c == ")":
            l = stack.pop(); stack[-1].append(l); pos += 1
        elif c == "x":
            j = pos + 1
            while j < n and t[j] not in " ()": j += 1
            stack[-1].append(bytes.fromhex(t[pos + 1:j])); pos = j
        elif c in " \t\r\n": pos += 1
        else: raise ValueError("bad sexp output: %r" % t[:200])
    if len(stack) != 1 or len(stack[0]) != 1: raise ValueError("bad sexp output: %r" % t[:200])
    return stack[0][0]

def untext(x):
    """bytes atoms -> str (utf-8, lossless for invalid bytes), lists stay lists"""
    if isinstance(x, bytes): return x.decode("utf-8", "surrogateescape")
    if isinstance(x, str): return x
    return [untext(y) for y in x]

def to_coq(x):
    """python value -> Gallina term of type sexp (for the in-Coq cross-check)"""
    if x is None: return "Lst []"
    if x is True: x = "true"
    if x is False: x = "false"
    if isinstance(x, int): x = str(x)
    if isinstance(x, str): x = x.encode("utf-8", "surrogateescape")
    if isinstance(x, (bytes, bytearray)): return "Atom (bytes [" + ";".join(str(b) for b in x) + "]%N)"
    return "Lst [" + "; ".join(to_coq(y) for y in x) + "]"

def sx_to_coq(t):
    x = parse_sx(t) if isinstance(t, str) else t
    if isinstance(x, bytes): return "Atom (bytes [" + ";".join(str(b) for b in x) + "]%N)"
    return "Lst [" + "; ".join(sx_to_coq(y) for y in x) + "]"

# ----------------------------------------------------------------------------- build + model runner
def sh(cmd, timeout=3600, cwd=None):
    p = subprocess.run(cmd, shell=True, cwd=cwd, stdout=subprocess.PIPE, stderr=subprocess.STDOUT, timeout=timeout, text=True)
    return p.returncode, p.stdout

def build(force=False):
    """full .vo build + extraction + OCaml compile; serialised by a lock; no-op when up to date"""
    os.makedirs(WORK, exist_ok=True)
    with open(os.path.join(WORK, "build.lock"), "w") as lk:
        fcntl.flock(lk, fcntl.LOCK_EX)
        rc, out = sh("coq_makefile -f _CoqProject -o Makefile > /dev/null && timeout 3000 make -j16 2>&1 | tail -40", cwd=COQ)
        if rc != 0 or "Error" in out: return False, out
        vo = os.path.join(COQ, "Run.vo")
        if force or not os.path.exists(RUNNER) or os.path.getmtime(RUNNER) < os.path.getmtime(vo) \
           or os.path.getmtime(RUNNER) < os.path.getmtime(os.path.join(COQ, "extract", "driver.ml")):
            rc, out2 = sh("timeout 900 coqc -R .. V Extract.v && ocamlfind ocamlopt -w -a model.mli model.ml driver.ml -o runner",
                          cwd=os.path.join(COQ, "extract"))
            if rc != 0: return False, out2
        return True, out

def run_model(reqs, shards=1):
    """reqs: list of python request values; returns list of parsed sexp answers (bytes atoms)"""
    if not reqs: return []
    texts = [to_sx(r) for r in reqs]
    def one(chunk):
        p = subprocess.run(["bash", "-c", "ulimit -s unlimited 2>/dev/null; exec " + RUNNER], input="\n".join(chunk) + "\n",
                           stdout=subprocess.PIPE, stderr=subprocess.PIPE, text=True, timeout=3600)
        lines = p.stdout.split("\n")
        if lines and lines[-1] == "": lines.pop()
        if len(lines) != len(chunk):
            raise RuntimeError("model runner returned %d answers for %d requests: %s" % (len(lines), len(chunk), p.stderr[:500]))
        return lines
    if shards <= 1 or len(texts) < 64:
        lines = one(texts)
    else:
        from concurrent.futures import ThreadPoolExecutor
        k = (len(texts) + shards - 1) // shards
        chunks = [texts[i:i + k] for i in range(0, len(texts), k)]
        with ThreadPoolExecutor(len(chunks)) as ex: lines = [l for part in ex.map(one, chunks) for l in part]
    out = []
    for l in lines:
        if l.startswith("!"): out.append(["runner-failure", l.encode()])
        else: out.append(parse_sx(l))
    return out

def coq_crosscheck(reqs, answers, tag):
    """evaluate `run` inside Coq (vm_compute) on the same requests and compare with the extracted runner.
       returns (n_checked, list of disagreeing indices)"""
    if not reqs: return 0, []
    d = os.path.join(WORK, "cases_%s_%d" % (tag, os.getpid())); os.makedirs(d, exist_ok=True)
    f = os.path.join(d, "Cases.v")
    with open(f, "w") as fh:
        fh.write("From Coq Require Import List NArith Ascii String Bool.\nRequire Import V.PyStr V.Sexp V.Run.\nImport ListNotations.\n")
        fh.write("Fixpoint sexp_eqb (a b : sexp) {struct a} : bool :=\n  match a, b with\n  | Atom x, Atom y => str_eqb x y\n"
                 "  | Lst l, Lst m => (fix go (l : list sexp) (m : list sexp) : bool := match l, m with [] , [] => true | x :: l', y :: m' => sexp_eqb x y && go l' m' | _, _ => false end) l m\n"
                 "  | _, _ => false end.\n")
        fh.write("Definition cases : list (sexp * sexp) := [\n" +
                 ";\n".join("(%s, %s)" % (to_coq(r), sx_to_coq(a)) for r, a in zip(reqs, answers)) + "].\n")
        fh.write("Fixpoint mism (l : list (sexp * sexp)) (i : nat) : list nat := match l with [] => [] | (r, a) :: t => if sexp_eqb (run r) a then mism t (S i) else i :: mism t (S i) end.\n")
        fh.write("Eval vm_compute in (mism cases 0).\n")
    rc, out = sh("ulimit -s unlimited 2>/dev/null; timeout 600 coqc -R %s V -Q . C Cases.v" % COQ, cwd=d)
    subprocess.run(["rm", "-rf", d])
    m = re.search(r"=\s*\[(.*?)\]\s*:\s*list nat", out, re.S)
    if rc != 0 or not m: return len(reqs), ["coqc failed: " + out[-400:]]
    bad = [int(x) for x in re.findall(r"\d+", m.group(1))]
    return len(reqs), bad

FORBIDDEN = r"Admitted|\badmit\b|\bAxiom\b|\bParameter\b|\bConjecture\b|Unset Guard|bypass_check|type-in-type|impredicative-set|Admit Obligations|\bHypothesis\b|\bVariable\b"

def coq_step(prop):
    """re-check Properties file of this property, capture Print Assumptions, scan for forbidden constructs.
       returns dict(obligations, discharged, theorems, assumptions, failed)"""
    pf = os.path.join(COQ, "P_%s.v" % prop)
    src = open(pf).read()
    theorems = re.findall(r"^\s*Theorem\s+(\w+)", src, re.M)
    info = dict(obligations=len(theorems), discharged=0, theorems=theorems, assumptions=[], failed=[], axioms=[])
    ok, out = build()
    if not ok:
        info["failed"].append("build: " + out[-1500:]); return info
    rc, out = sh("timeout 1200 coqc -R . V P_%s.v" % prop, cwd=COQ)
    if rc != 0:
        m = re.search(r'line (\d+)', out)
        name = "?"
        if m:
            ln = int(m.group(1)); before = "\n".join(src.split("\n")[:ln])
            ths = re.findall(r"^\s*Theorem\s+(\w+)", before, re.M); name = ths[-1] if ths else "?"
        info["failed"].append("theorem %s: %s" % (name, out[-800:])); return info
    blocks = [b.strip() for b in re.split(r"(?=Closed under the global context|Axioms:)", out) if b.strip()]
    info["assumptions"] = blocks
    info["axioms"] = sorted(set(re.findall(r"^([\w.]+)\s*:", "\n".join(b for b in blocks if b.startswith("Axioms:")), re.M)))
    # forbidden constructs anywhere in the development (Section variables are allowed only inside Sections)
    bad = []
    for fn in sorted(os.listdir(COQ)):
        if not fn.endswith(".v"): continue
        text = open(os.path.join(COQ, fn)).read()
        text_nc = re.sub(r"\(\*.*?\*\)", "", text, flags=re.S)
        depth = 0
        for ln, line in enumerate(text_nc.split("\n"), 1):
            if re.match(r"\s*Section\b", line): depth += 1
            if re.match(r"\s*End\b", line): depth = max(0, depth - 1)
            for m in re.finditer(FORBIDDEN, line):
                w = m.group(0)
                if w in ("Hypothesis", "Variable") and depth > 0: continue
                bad.append("%s:%d:%s" % (fn, ln, w))
    if bad:
        info["failed"].append("forbidden constructs: " + ", ".join(bad[:10])); return info
    n_pa = len(re.findall(r"^\s*Print Assumptions", src, re.M))
    if n_pa < len(theorems):
        info["failed"].append("Print Assumptions missing for some theorem (%d < %d)" % (n_pa, len(theorems))); return info
    info["discharged"] = len(theorems)
    return info

# ----------------------------------------------------------------------------- known findings
def load_known(prop):
    p = os.path.join(VERIF, "known_findings.json")
    if not os.path.exists(p): return []
    return [e for e in json.load(open(p))["findings"] if e["property"] == prop]

# ----------------------------------------------------------------------------- check context
def canon_hash(x):
    return hashlib.sha256(json.dumps(x, sort_keys=True, default=repr, ensure_ascii=True).encode()).hexdigest()

# evidence of runs against /repo itself goes to evidence/; bin/seedrun (a deliberately broken /repo) redirects it
EVIDENCE_DIR = os.environ.get("VERIF_EVIDENCE_DIR") or os.path.join(VERIF, "evidence")
def relabel(df, salt=0):
    """the same table under other row labels (default RangeIndex, non-contiguous reversed labels, or repeated labels): the library's functions take any
    DataFrame, so what they compute must not depend on the labels; the choice is a deterministic function of the table's size and the salt"""
    mode = (len(df) * 7 + salt) % 3
    if mode == 0 or len(df) == 0: return df
    df = df.copy()
    if mode == 1: df.index = [1000 + 3 * i for i in range(len(df))][::-1]
    else: df.index = [i // 2 for i in range(len(df))]
    return df

def pandas_mode(i):
    """every third case of an engine runs with pandas' copy-on-write mode on (optional in pandas 2.x, the only mode of pandas 3): a result that relies
    on a column taken from a frame being a VIEW of it is right in one mode only"""
    import pandas as pd
    pd.set_option("mode.copy_on_write", i % 3 == 2)

class Ctx:
    def __init__(self, prop, tier, seed):
        self.prop, self.tier, self.seed = prop, tier, seed
        self.rng = random.Random(seed)
        self.t0 = time.time()
        self.evaluations = 0
        self.seen = set(); self.nontrivial = set()
        self.samples = []; self.hist = collections.Counter()
        self.disagreements = []        # (stream, case, impl, model)
        self.failures = []             # oracle failures: dict(signature, case, detail)
        self.known_hits = collections.Counter()
        self.known = load_known(prop)
        self.notes = {}
        self.rule = ""
        self.exhaustive = False
        self.coq = None
        self.trusted = []
        self.crosscheck = None

    def quick(self): return self.tier == "quick"

    # -- recording
    def record(self, case, nontrivial, features=()):
        self.evaluations += 1
        h = canon_hash(case)
        if h not in self.seen:
            self.seen.add(h)
            if nontrivial: self.nontrivial.add(h)
        for f in features: self.hist[f] += 1
        if len(self.samples) < 6 and nontrivial and self.rng.random() < 0.3: self.samples.append(case)
        elif not self.samples: self.samples.append(case)

    def disagree(self, stream, case, impl, model):
        self.disagreements.append(dict(stream=stream, case=case, impl=impl, model=model))

    def fail(self, signature, case, detail):
        """an input on which the PROPERTY (not the correspondence) fails on the implementation"""
        try:
            import pandas as pd
            if isinstance(case, dict) and pd.get_option("mode.copy_on_write"): case = dict(case, pandas_copy_on_write=True)
        except Exception: pass
        m = re.fullmatch(r"[^/]+/known:(.+)", signature)
        if m:
            # a failure explained by recorded causes: every cause must be an open finding
            causes = m.group(1).split("+"); owners = []
            for c in causes:
                o = [e for e in self.known if e.get("status") == "open" and e.get("cause") == c]
                if not o: break
                owners.append(o[0])
            else:
                for o in owners: self.known_hits[o["id"]] += 1
                return False
        for e in self.known:
            if e.get("status") == "open" and re.fullmatch(e["signature"], signature):
                self.known_hits[e["id"]] += 1; return False
        self.failures.append(dict(signature=signature, case=case, detail=detail)); return True

    # -- verdict
    def finish(self):
        os.makedirs(EVIDENCE_DIR, exist_ok=True)
        viol = []
        rdir = os.path.join(VERIF, "replays", self.prop); 
        def write_replay(obj):
            os.makedirs(rdir, exist_ok=True)
            p = os.path.join(rdir, canon_hash(obj)[:16] + ".json")
            json.dump(obj, open(p, "w"), indent=1, default=repr, ensure_ascii=True); return os.path.relpath(p, VERIF)
        seen_sig = set()
        for f in sorted(self.failures, key=lambda f: len(json.dumps(f["case"], default=repr))):
            if f["signature"] in seen_sig: continue
            seen_sig.add(f["signature"])
            p = write_replay(dict(property=self.prop, kind="failing-input", seed=self.seed, tier=self.tier, **f))
            viol.append("VIOLATION property=%s replay=%s" % (self.prop, p))
        coq_failed = self.coq["failed"] if self.coq else ["coq step not run"]
        indom = [d for d in self.disagreements if d["stream"] != "out-of-domain"]
        if (not viol and (indom or (self.crosscheck and self.crosscheck[1]))) or coq_failed:
            what = []
            if coq_failed: what.append(dict(broken="proof", detail=coq_failed))
            if indom: what.append(dict(broken="correspondence model<->implementation", property_model="coq/M_%s.v" % self.prop, cases=indom[:20], total=len(indom)))
            if self.crosscheck and self.crosscheck[1]: what.append(dict(broken="correspondence extracted-runner<->vm_compute", indices=self.crosscheck[1][:20]))
            p = write_replay(dict(property=self.prop, kind="no-failing-input-found", seed=self.seed, tier=self.tier, what=what))
            viol.append("VIOLATION property=%s replay=%s no-failing-input-found" % (self.prop, p))
        for e in self.known:
            if e.get("status") == "open" and e.get("still_fails", True):
                print("KNOWN-FINDING: property=%s %s" % (self.prop, e["what"]))
        drift = [d for d in self.disagreements if d["stream"] == "out-of-domain"]
        cov = dict(
            obligations=self.coq["obligations"] if self.coq else 0,
            discharged=self.coq["discharged"] if self.coq else 0,
            checker_cmd="cd coq && coq_makefile -f _CoqProject -o Makefile && make -j16 && coqc -R . V P_%s.v   (Coq 8.16.1 kernel; Print Assumptions under every theorem)" % self.prop,
            trusted_base=self.trusted + (["Print Assumptions: " + "; ".join(sorted(set(a.replace("\n", " ") for a in self.coq["assumptions"])))] if self.coq else []),
            theorems=self.coq["theorems"] if self.coq else [],
            evaluations=self.evaluations,
            distinct_nontrivial=len(self.nontrivial),
            distinct=len(self.seen),
            rule=self.rule,
            samples=self.samples[:6],
            feature_histogram=dict(self.hist.most_common(60)),
            correspondence=dict(disagreements_in_domain=len(indom), disagreements_out_of_domain=len(drift), first_disagreements=[dict(stream=d['stream'], case=d['case'], impl=d['impl'], model=d['model']) for d in self.disagreements[:8]],
                                extraction_vs_vm_compute=dict(checked=self.crosscheck[0], mismatches=len(self.crosscheck[1])) if self.crosscheck else None),
            known_findings=[dict(id=e["id"], status=e["status"], hits_this_run=self.known_hits.get(e["id"], 0), still_fails=e.get("still_fails")) for e in self.known],
            exhaustive=self.exhaustive,
            notes=self.notes,
        )
        ev = dict(property_id=self.prop, tier=self.tier, seed=self.seed, level="proof", coverage=cov,
                  assumptions=self.trusted, wall_s=round(time.time() - self.t0, 2), violations=len(viol))
        json.dump(ev, open(os.path.join(EVIDENCE_DIR, self.prop + ".json"), "w"), indent=1, default=repr, ensure_ascii=True)
        for v in viol: print(v)
        for c in coq_failed: print("CHECK-BROKEN: " + c[-1500:])
        print("%s %s: obligations %d/%d, %d evaluations (%d distinct non-trivial), %d in-domain disagreements, %d drift, %d new failing inputs, %.1fs"
              % (self.prop, self.tier, cov["discharged"], cov["obligations"], self.evaluations, len(self.nontrivial), len(indom), len(drift), len(self.failures), time.time() - self.t0))
        return 1 if viol else 0

def classify_exc(e):
    n = type(e).__name__
    for k in ("ValueError", "KeyError", "TypeError", "IndexError", "FileNotFoundError", "ValidationError", "XMLSyntaxError"):
        if n == k: return k
    if isinstance(e, ValueError): return "ValueError"
    if isinstance(e, KeyError): return "KeyError"
    if isinstance(e, TypeError): return "TypeError"
    if isinstance(e, IndexError): return "IndexError"
    return "Other"
