"""C14 - normalised tables are canonical; UA values are comparable, hashable and totally pre-ordered."""
import itertools, math, datetime
from dataclasses import astuple, fields, is_dataclass
import pandas as pd
import vlib
from vlib import Sym

def pool():
    from opcua_tools import ua_data_types as T
    NA = pd.NA
    nan1, nan2 = float("nan"), float("nan")
    P = []
    P += [T.UABoolean(True), T.UABoolean(False), T.UABoolean(NA)]
    for c in (T.UASByte, T.UAByte, T.UAInt16, T.UAUInt16, T.UAInt32, T.UAUInt32, T.UAInt64, T.UAUInt64):
        P += [c(0), c(5), c(10), c(NA)]
    P += [T.UAInt32(-1), T.UAInt32(-10), T.UAInt64(-2**63), T.UAUInt64(2**64 - 1), T.UAInt64(2**53 + 1)]
    for c in (T.UAFloat, T.UADouble):
        P += [c(0.0), c(-0.0), c(1.5), c(10.0), c(5e-324), c(1.7976931348623157e308), c(float("inf")), c(float("-inf")), c(nan1), c(nan2), c(NA), c(None)]
    for c in (T.UAString, T.UAGuid):
        P += [c("a"), c("b"), c("a b"), c("é"), c("(1,)"), c("'"), c(""), c(NA)]
    # one Guid in two letter cases and a Guid whose text sorts between the two spellings; the same for strings
    P += [T.UAGuid("C496578A-0DFE-4B8F-870A-745238C6AEAE"), T.UAGuid("c496578a-0dfe-4b8f-870a-745238c6aeae"), T.UAGuid("D0000000-0000-0000-0000-000000000000"), T.UAString("ABC"), T.UAString("abc"), T.UAString("Bcd")]
    P += [T.UADateTime(datetime.datetime(2020, 1, 2, 3, 4, 5)), T.UADateTime(datetime.datetime(1999, 12, 31, 23, 59, 59, 123456)),
          T.UADateTime(datetime.datetime(2020, 1, 2, 3, 4, 5, tzinfo=datetime.timezone.utc))]
    P += [T.UAByteString(b"abc"), T.UAByteString(b"\x00\xff"), T.UAByteString(b""), T.UAByteString(None)]
    P += [T.UAXMLElement("<a/>"), T.UAXMLElement("<b>x</b>")]
    P += [T.UANodeId(0, "i", "85"), T.UANodeId(1, "i", "85"), T.UANodeId(1, "s", "85"), T.UANodeId(12, "s", "ns=1;x"), T.UANodeId(2, "g", "abc"), T.UANodeId(0, "b", "QUJD")]
    # the same NodeIds in the other accepted spellings of the identifier type (enum member, position number): equal values, so equal hashes
    P += [T.UANodeId(1, T.NodeIdType.NUMERIC, "85"), T.UANodeId(1, 0, "85"), T.UANodeId(1, T.NodeIdType.STRING, "85"), T.UANodeId(1, 1, "85"),
          T.UANodeId(2, T.NodeIdType.GUID, "abc"), T.UANodeId(0, T.NodeIdType.OPAQUE, "QUJD"), T.UANodeId(0, 3, "QUJD"),
          T.UAVariant(T.UANodeId(1, T.NodeIdType.NUMERIC, "85")), T.UAVariant(T.UANodeId(1, "i", "85"))]
    P += [T.UAQualifiedName(0, "n"), T.UAQualifiedName(1, "n"), T.UAQualifiedName(1, "m")]
    P += [T.UALocalizedText("t", "en"), T.UALocalizedText("t", NA), T.UALocalizedText(NA, "en"), T.UALocalizedText(NA, NA), T.UALocalizedText("u", "en")]
    P += [T.UAVariant(T.UAInt32(5)), T.UAVariant(T.UAString("a")), T.UAVariant(NA)]
    P += [T.UAEnumeration(value=1, string="On", name="E"), T.UAEnumeration(value=1, string="Off", name="E"), T.UAEnumeration(value=2, string="On", name="E")]
    P += [T.UAExtensionObject(type_nodeid=T.UANodeId(1, "i", "5"), body=T.UAXMLElement("<a/>")),
          T.UAExtensionObject(type_nodeid=T.UANodeId(1, "i", "5"), body=T.UAByteString(b"ab")),
          T.UAExtensionObject(type_nodeid=T.UANodeId(1, "i", "6"), body=T.UAXMLElement("<a/>"))]
    lt = T.UALocalizedText
    P += [T.UAEUInformation(lt("m", "en"), lt("metre", "en"), 5, "http://u"), T.UAEUInformation(lt("m", NA), lt(NA, NA), 5, "http://u"),
          T.UAEngineeringUnits(lt("m", "en"), lt("metre", "en"), 5, "http://u"), T.UAEngineeringUnits(lt("s", "en"), lt("second", "en"), 6, "http://u")]
    P += [T.UARange(0.0, 1.0), T.UARange(-1.0, 1.0), T.UAEURange(0.0, 1.0), T.UAEURange(0, 100)]
    P += [T.UAListOf((), "Int32"), T.UAListOf((T.UAInt32(1), T.UAInt32(2)), "Int32"), T.UAListOf((T.UAInt32(1),), "Int32"),
          T.UAListOf((T.UAInt32(NA), T.UAInt32(2)), "Int32"), T.UAListOf((T.UAInt32(5), T.UAInt32(2)), "Int32"),
          T.UAListOf((T.UAString("a"),), "String"), T.UAListOf((lt("x", "en"), lt("y", NA)), "LocalizedText"),
          T.UAListOf((T.UADouble(nan1),), "Double"), T.UAListOf((T.UADouble(nan2),), "Double"), T.UAListOf((T.UADouble(nan1), T.UADouble(1.0)), "Double")]
    P += [T.UAStructure(T.UARange(0.0, 1.0)), T.UAStructure(NA)]
    return P

_ids = {}
def flatten(x):
    """fields of a value in comparison order, as model atoms"""
    if x is pd.NA: return [[Sym("na")]]
    if isinstance(x, float) and math.isnan(x): return [[Sym("nan"), _ids.setdefault(id(x), len(_ids))]]
    if is_dataclass(x) and not isinstance(x, type):
        out = [[Sym("obj"), "cls:" + type(x).__name__]]
        for f in fields(x): out += flatten(getattr(x, f.name))
        return out + [[Sym("end")]]
    if isinstance(x, tuple):
        out = [[Sym("obj"), "tuple"]]
        for y in x: out += flatten(y)
        return out + [[Sym("end")]]
    import enum
    if x is None or isinstance(x, enum.Enum): return [[Sym("obj"), repr(x)]]
    if isinstance(x, float) and x == 0.0: x = 0.0                       # -0.0 == 0.0
    return [[Sym("val"), type(x).__name__ + ":" + repr(x)]]

def uaval(u):
    fl = []
    for f in fields(u): fl += flatten(getattr(u, f.name))
    return [type(u).__name__, fl]

def uakey(u): return [type(u).__name__, str(astuple(u))]

def ops(u, v):
    out = []
    for f in (lambda a, b: a < b, lambda a, b: a <= b, lambda a, b: a > b, lambda a, b: a >= b):
        try: out.append(bool(f(u, v)))
        except BaseException as e: out.append("err")
    return out
def eqs(u, v):
    out = []
    for a, b in ((u, v), (v, u)):
        try: out.append(["ok", bool(a == b)])
        except BaseException as e: out.append(["err"])
    return out
def dec_eq(a):
    a = vlib.untext(a)
    return [["ok", x[1] == "true"] if x[0] == "ok" else ["err"] for x in a]

# ---------------------------------------------------------------- tables
def enc_cell(x):
    """order-preserving encoding of a table cell as (class, key) / None"""
    if x is None or x is pd.NA or (isinstance(x, float) and math.isnan(x)): return None
    if is_dataclass(x): return uakey(x)
    if isinstance(x, bool): return ["bool", "1" if x else "0"]
    if isinstance(x, int) or hasattr(x, "__index__"): return ["int", "%020d" % (int(x) + 10**18)]
    if isinstance(x, str): return ["str", x]
    raise TypeError(type(x))

NODE_COLS = ["NodeClass", "NodeId", "BrowseName", "BrowseNameNamespace", "DisplayName", "Description", "Value", "ValueRank", "ns"]
REF_COLS = ["ParentNodeId", "DataType", "MethodDeclarationId"]
def random_graph_tables(rng, values, twin=None):
    from opcua_tools.ua_data_types import UANodeId
    n = rng.randint(2, 7)
    ids = list(range(n))
    nids = [UANodeId(rng.choice([0, 1, 2]), rng.choice("is"), str(100 + i) if rng.random() < 0.7 else str(i)) for i in ids]
    rows = []
    safe = [v for v in values if not any(a == [Sym("na")] or a[0] == "nan" for a in uaval(v)[1])]
    for i in ids:
        rows.append(dict(id=i, NodeClass=rng.choice(["UAObject", "UAVariable", "UADataType"]), NodeId=nids[i],
                         BrowseName=rng.choice(["A", "B", "a", "Ä", "x y"]), BrowseNameNamespace=rng.choice([0, 1, 2]),
                         DisplayName=rng.choice(["A", "B", ""]), Description=rng.choice(["", "d"]),
                         Value=(rng.choice(safe) if rng.random() < 0.6 else pd.NA), ValueRank=rng.choice([-1, 1, 2, 10]), ns=nids[i].namespace,
                         ParentNodeId=(rng.choice(ids) if rng.random() < 0.5 else pd.NA), DataType=(rng.choice(ids) if rng.random() < 0.5 else pd.NA),
                         MethodDeclarationId=(rng.choice(ids) if rng.random() < 0.2 else pd.NA)))
    if twin or (twin is None and rng.random() < 0.25):
        # one NodeId held by two rows under two different ids (two parsed graphs merged by shifting the ids of the second): the rows agree in class,
        # names shown, description and value and differ further to the right (browse name, value rank, id-valued columns)
        j, k = rng.sample(ids, 2)
        for c in ("NodeClass", "NodeId", "DisplayName", "Description", "Value", "ns"): rows[k][c] = rows[j][c]
        rows[k]["BrowseName"] = rng.choice([b for b in ["A", "B", "a", "Ä", "x y"] if b != rows[j]["BrowseName"]])
    refs = [(rng.choice(ids), rng.choice(ids), rng.choice(ids)) for _ in range(rng.randint(0, 8))]
    # a reference whose type is no node of the graph (a type of a companion specification that was not loaded): its cell stays empty
    if refs and rng.random() < 0.3:
        k = rng.randrange(len(refs)); refs[k] = (refs[k][0], refs[k][1], 77)
    return rows, refs

def make_graph(rows, refs):
    from opcua_tools.ua_graph import UAGraph
    nodes = pd.DataFrame(rows)
    for c in REF_COLS + ["id"]: nodes[c] = nodes[c].astype(pd.Int64Dtype())
    nodes["ValueRank"] = nodes["ValueRank"].astype("int64"); nodes["BrowseNameNamespace"] = nodes["BrowseNameNamespace"].astype("int64"); nodes["ns"] = nodes["ns"].astype("int64")
    rdf = pd.DataFrame({"Src": pd.Series([r[0] for r in refs], dtype="int64"), "Trg": pd.Series([r[1] for r in refs], dtype="int64"),
                        "ReferenceType": pd.Series([r[2] for r in refs], dtype="int64")})
    return UAGraph(nodes=vlib.relabel(nodes, 1), references=vlib.relabel(rdf, 2), namespaces=["http://opcfoundation.org/UA/", "urn:a", "urn:b"], models=[])

def impl_tables(rows, refs, renumber=None):
    """renumber: an id -> id map applied IN PLACE to the tables of the graph object after a first normalisation (the caller re-numbers the graph it holds);
    the tables reported are those computed afterwards"""
    try:
        g = make_graph(rows, refs)
        if renumber is not None:
            g.get_normalized_nodes_df(); g.get_normalized_references_df(); g.get_normalized_nodes_df("urn:a"); g.get_normalized_references_df("urn:b")
            f_ = lambda v: v if pd.isna(v) else renumber.get(int(v), int(v))
            for c in ["id"] + REF_COLS: g.nodes[c] = g.nodes[c].map(f_).astype(g.nodes[c].dtype)
            for c in ("Src", "Trg", "ReferenceType"): g.references[c] = g.references[c].map(f_).astype(g.references[c].dtype)
        nn = g.get_normalized_nodes_df(); rr = g.get_normalized_references_df()
        cols = list(nn.columns)
        tn = [[enc_cell(r[c]) for c in NODE_COLS + REF_COLS] for _, r in nn.iterrows()]
        tr = [[enc_cell(r[c]) for c in ("Src", "Trg", "ReferenceType")] for _, r in rr.iterrows()]
        # ... and per namespace
        per = []
        for uri in ("urn:a", "urn:b"):
            nk = g.get_normalized_nodes_df(uri); rk = g.get_normalized_references_df(uri)
            per.append([[[enc_cell(r[c]) for c in NODE_COLS + REF_COLS] for _, r in nk.iterrows()], [[enc_cell(r[c]) for c in ("Src", "Trg", "ReferenceType")] for _, r in rk.iterrows()]])
        return ["ok", cols, tn, tr, per]
    except BaseException as e:
        return ["err", type(e).__name__ + ": " + str(e)[:100]]

def model_reqs(rows, refs):
    lk = [[r["id"], uakey(r["NodeId"])] for r in rows]
    gn = [[r["id"], [enc_cell(r[c]) and list(enc_cell(r[c])) for c in NODE_COLS], [None if r[c] is pd.NA else [int(r[c])] for c in REF_COLS]] for r in rows]
    gn = [[i, [None if c is None else [c] for c in cells], rc] for i, cells, rc in gn]
    return [Sym("c14_nodes"), lk, gn], [Sym("c14_refs"), lk, [list(r) for r in refs]]

def model_reqs_ns(rows, refs, k):
    (_, lk, gn), _ = model_reqs(rows, refs)
    pairs = [[n, int(r["ns"])] for n, r in zip(gn, rows)]
    return [Sym("c14_nodes_ns"), lk, k, pairs], [Sym("c14_refs_ns"), lk, k, pairs, [list(r) for r in refs]]

def dec_rows(a):
    a = vlib.untext(a)
    return [[None if c == [] else list(c[0]) for c in row] for row in a]

def check(ctx):
    rng = ctx.rng
    ctx.rule = ("operators: all ordered pairs of a pool of ~170 UA values of every class (nulls, NaN objects, nested lists and structures) for < <= > >= and ==/hash, "
                "all triples (thorough) or a random sample of triples (quick) for transitivity; tables: random node/reference tables built into a real UAGraph, each re-built "
                "with permuted rows and renumbered ids (also re-numbered in place on the same graph object after a first normalisation), whole and per namespace, and compared cell by cell with the model's sorted table. Distinct by SHA-256; a pair is non-trivial when the two values "
                "have the same class or one of them holds a null/NaN; a table when it has >= 3 rows and an id-valued column.")
    ctx.trusted = ["hand-written Gallina model coq/M_C14.v: lt/le/gt/ge as functions of (class name, str(astuple(value))), which the harness reads off the Python objects; "
                   "dataclass __eq__/__hash__ over the flattened fields (identity-or-== with bool(pd.NA) raising); sort_values modelled as insertion sort by the lexicographic row order, missing last",
                   "pandas' multi-column sort (ordered Categorical per column) is assumed to realise the order induced by __lt__ on each column; cells are compared through an order-preserving encoding chosen by the harness",
                   "extraction + driver.ml, cross-checked against vm_compute on a sample"]
    P = pool()
    reqs = []; meta = []
    pairs = list(itertools.product(range(len(P)), repeat=2))
    if ctx.quick():
        # every pair of values of one class (where ==, hash and the order carry content), and a sample of the pairs of different classes
        same = [(i, j) for i, j in pairs if type(P[i]) is type(P[j])]
        rest = [(i, j) for i, j in pairs if type(P[i]) is not type(P[j])]
        byclass0 = {}
        for i, v in enumerate(P): byclass0.setdefault(type(v).__name__, []).append(i)
        reps0 = [i for l in byclass0.values() for i in (l[:1] + l[-1:] if len(l) > 1 else l)]
        cross = set(rng.sample(rest, min(len(rest), 2500))) | set((i, j) for i in reps0 for j in reps0 if type(P[i]) is not type(P[j]))
        pairs = same + sorted(cross)
    for i, j in pairs:
        reqs.append([Sym("c14_cmp"), uakey(P[i]), uakey(P[j])]); meta.append(("cmp", i, j))
        reqs.append([Sym("c14_eq"), uaval(P[i]), uaval(P[j])]); meta.append(("eq", i, j))
    tables = []
    for t_ in range(25 if ctx.quick() else 400):
        rows, refs = random_graph_tables(rng, P, twin=True if t_ in (1, 2, 3) else None)
        a, b = model_reqs(rows, refs); reqs.append(a); meta.append(("nodes", len(tables), 0)); reqs.append(b); meta.append(("refs", len(tables), 0))
        for k_ in (1, 2):
            a, b = model_reqs_ns(rows, refs, k_); reqs.append(a); meta.append(("nodes-ns%d" % k_, len(tables), 0)); reqs.append(b); meta.append(("refs-ns%d" % k_, len(tables), 0))
        tables.append((rows, refs))
    ans = vlib.run_model(reqs, shards=12)
    lt = {}
    model_tables = {}
    for (kind, i, j), a in zip(meta, ans):
        if kind == "cmp":
            u, v = P[i], P[j]
            out = ops(u, v); mo = [x == "true" for x in vlib.untext(a)]
            same = type(u) is type(v)
            ctx.record(["cmp", uakey(u), uakey(v)], same or "nan" in str(uakey(u)) + str(uakey(v)) or "NA" in str(uakey(u)) + str(uakey(v)), ["cmp", "same-class" if same else "diff-class"])
            if out != mo: ctx.disagree("operators", ["cmp", uakey(u), uakey(v)], out, mo)
            lt[(i, j)] = out[0]
            if "err" in out: ctx.fail("C14/operator-raises", dict(kind="cmp", a=repr(u), b=repr(v)), "comparison raised: %r" % out)
            elif out[1] != (not out[2]) or out[3] != (not out[0]):
                ctx.fail("C14/le-ge-inconsistent", dict(kind="cmp", a=repr(u), b=repr(v)), "<,<=,>,>= = %r" % out)
        elif kind == "eq":
            u, v = P[i], P[j]
            out = eqs(u, v); mo = dec_eq(a)
            ctx.record(["eq", uaval(u), uaval(v)], type(u) is type(v), ["eq"])
            if out != mo: ctx.disagree("equality", ["eq", repr(u), repr(v)], out, mo)
            if out[0] == ["err"]:
                ctx.fail("C14/eq-raises-on-NA" if ("<NA>" in repr(u) + repr(v) or "nan" in repr(u) + repr(v)) else "C14/eq-raises", dict(kind="eq", a=repr(u), b=repr(v)), "== raised")
            elif out[0][1]:
                try:
                    if hash(u) != hash(v): ctx.fail("C14/hash", dict(kind="eq", a=repr(u), b=repr(v)), "equal values with different hashes")
                except TypeError: pass
        else:
            model_tables[(kind, i)] = dec_rows(a)
    # trichotomy / transitivity on the implementation
    n = len(P)
    for (i, j), l in lt.items():
        if (j, i) in lt and l is True and lt[(j, i)] is True:
            ctx.fail("C14/not-antisymmetric", dict(kind="cmp", a=repr(P[i]), b=repr(P[j])), "a<b and b<a")
        if (j, i) in lt and l is False and lt[(j, i)] is False and uakey(P[i]) != uakey(P[j]):
            ctx.fail("C14/incomparable", dict(kind="cmp", a=repr(P[i]), b=repr(P[j])), "neither a<b nor b<a for values with different class/key")
    if ctx.quick():
        # a sample of all triples, and EVERY triple over two representatives of each class (the order between classes is where a cycle can hide)
        byclass = {}
        for i, v in enumerate(P): byclass.setdefault(type(v).__name__, []).append(i)
        reps = [i for l in byclass.values() for i in (l[:1] + l[-1:] if len(l) > 1 else l)]
        triples = itertools.chain((tuple(rng.randrange(n) for _ in range(3)) for _ in range(60000)), itertools.product(reps, repeat=3))
    else: triples = itertools.product(range(n), repeat=3)
    nt = 0
    for i, j, k in triples:
        if lt.get((i, j)) is True and lt.get((j, k)) is True:
            nt += 1
            if (i, k) in lt and lt[(i, k)] is not True:
                ctx.fail("C14/not-transitive", dict(kind="triple", a=repr(P[i]), b=repr(P[j]), c=repr(P[k])), "a<b<c but not a<c")
    ctx.notes["transitivity_triples_checked"] = nt
    # tables.  First a graph whose node table has no MethodDeclarationId column at all (a nodeset without methods) is normalised: whatever that leaves
    # behind in the process must not change the tables of the graphs that follow
    try:
        from opcua_tools.ua_graph import UAGraph
        small = pd.DataFrame([{k: v for k, v in r.items() if k != "MethodDeclarationId"} for r in tables[0][0]]) if tables else None
        if small is not None:
            for c in ["ParentNodeId", "DataType", "id"]: small[c] = small[c].astype(pd.Int64Dtype())
            g0 = UAGraph(nodes=small, references=pd.DataFrame({"Src": pd.Series([], dtype="int64"), "Trg": pd.Series([], dtype="int64"), "ReferenceType": pd.Series([], dtype="int64")}),
                         namespaces=["http://opcfoundation.org/UA/", "urn:a", "urn:b"], models=[])
            g0.get_normalized_nodes_df(); g0.get_normalized_nodes_df("urn:a")
    except BaseException as e:
        ctx.notes["methodless_graph"] = "normalising a node table without a MethodDeclarationId column raised %s" % type(e).__name__
    for t, (rows, refs) in enumerate(tables):
        vlib.pandas_mode(t)
        out = impl_tables(rows, refs)
        ctx.record(["table", [[str(r[c]) for c in ["id"] + NODE_COLS + REF_COLS] for r in rows], refs], len(rows) >= 3, ["table"])
        if out[0] != "ok":
            ctx.fail("C14/normalize-raises", dict(kind="table", rows=repr(rows), refs=refs), out[1]); continue
        if out[2] != model_tables[("nodes", t)]: ctx.disagree("normalized-nodes", ["table", t, repr(rows)], out[2], model_tables[("nodes", t)])
        if out[3] != model_tables[("refs", t)]: ctx.disagree("normalized-refs", ["table", t, refs], out[3], model_tables[("refs", t)])
        for k_ in (1, 2):
            if out[4][k_ - 1][0] != model_tables[("nodes-ns%d" % k_, t)]: ctx.disagree("normalized-nodes-per-namespace", ["table", t, k_, repr(rows)], out[4][k_ - 1][0], model_tables[("nodes-ns%d" % k_, t)])
            if out[4][k_ - 1][1] != model_tables[("refs-ns%d" % k_, t)]: ctx.disagree("normalized-refs-per-namespace", ["table", t, k_, refs], out[4][k_ - 1][1], model_tables[("refs-ns%d" % k_, t)])
        # the property itself: permute rows and renumber ids
        for variant in range(2):
            perm = list(range(len(rows))); rng.shuffle(perm)
            newid = list(range(10, 10 + len(rows))); rng.shuffle(newid)
            f = {r["id"]: newid[k] for k, r in enumerate(rows)}
            rows2 = []
            for k in perm:
                r = dict(rows[k]); r["id"] = f[r["id"]]
                for c in REF_COLS:
                    if r[c] is not pd.NA: r[c] = f[r[c]]
                rows2.append(r)
            refs2 = [(f[a], f[b], f.get(c, c)) for a, b, c in refs]; rng.shuffle(refs2)
            out2 = impl_tables(rows2, refs2)
            if out2 != out:
                ctx.fail("C14/not-canonical", dict(kind="table", rows=repr(rows), refs=refs, perm=perm, newid=newid), "normalised tables differ after permutation/renumbering")
            # the same re-numbering applied in place to the graph object after it has been normalised once
            if variant == 0:
                f77 = dict(f); f77.setdefault(77, 77)
                out3 = impl_tables(rows, refs, renumber=f77)
                if out3 != out:
                    ctx.fail("C14/not-canonical", dict(kind="table", rows=repr(rows), refs=refs, perm=None, newid=newid, inplace=True), "normalised tables differ after the graph's ids were re-numbered in place")
    pick = sorted(rng.sample(range(len(reqs)), min(40 if ctx.quick() else 150, len(reqs))))
    ctx.crosscheck = vlib.coq_crosscheck([reqs[i] for i in pick], [ans[i] for i in pick], "c14")

def oracle_case(case):
    if case.get("kind") == "eq-known":
        from opcua_tools import ua_data_types as T
        try: T.UAInt32(pd.NA) == T.UAInt32(5); return []
        except TypeError: return [("C14/eq-raises-on-NA", "UAInt32(pd.NA) == UAInt32(5) raises TypeError")]
    return []
