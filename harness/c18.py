"""C18 - model and namespace metadata are reported faithfully and consistently."""
import os, shutil, copy
import vlib, docs, nsgen, parsecmp, parseprops, uaconv
from vlib import Sym
from docs import UA

def impl_helpers(path):
    from opcua_tools import nodeset_parser as NP
    from opcua_tools.json_parser import namespaces as JN, parse as JP
    def canon(f):
        try:
            d = f()
            return ["ok", [uaconv.opt(d["name"]), sorted(d["included_namespaces"])]]
        except BaseException as e:
            return ["err", type(e).__name__]
    x = canon(lambda: NP.get_namespace_data_from_file(path))
    side = path + "_parsed.json"
    try:
        JP.pre_process_xml_to_json(path)
        j = canon(lambda: JN.get_namespace_data_from_file(side))
    except BaseException as e:
        j = ["err", type(e).__name__]
    finally:
        if os.path.exists(side): os.remove(side)
    try: fn = ["ok", NP.get_xml_namespaces(path)]
    except BaseException as e: fn = ["err", type(e).__name__]
    return x, j, fn

def dec_nd(a):
    if a[0] == "ok": return ["ok", [a[1][0], sorted(a[1][1])]]
    return ["err"]

def variants(rng, d, fname):
    """header variations of one document: models 0-2, required models, missing optional attributes, URI tables, base under other names"""
    out = []
    d = copy.deepcopy(d)
    k = rng.random()
    if k < 0.15: d["models"] = None
    elif k < 0.25: d["models"] = []
    elif k < 0.45 and d["models"]:
        d["models"] = d["models"] + [dict(attrs=[("ModelUri", rng.choice(["urn:second", UA]))], required=[])]
    elif k < 0.55 and d["models"]:
        d["models"][0]["attrs"] = [kv for kv in d["models"][0]["attrs"] if kv[0] != rng.choice(["ModelUri", "Version", "PublicationDate"])]
    if rng.random() < 0.15: d["uris"] = None
    if rng.random() < 0.2 and d["uris"]: d["uris"] = d["uris"] + [rng.choice([UA, "urn:extra", d["uris"][0]])]
    if rng.random() < 0.15 and d["models"]: d["models"][0]["attrs"] = [("ModelUri", UA)] + [kv for kv in d["models"][0]["attrs"] if kv[0] != "ModelUri"]
    name = fname if rng.random() < 0.8 else rng.choice(["Opc.Ua.NodeSet2.xml", "my.Opc.Ua.NodeSet2.xml", "base.xml"])
    return name, d

def expected_helper(name, d):
    """the property's reading: own namespace = first model URI; dependencies = other NamespaceUris entries plus the OPC UA namespace"""
    if name.endswith("Opc.Ua.NodeSet2.xml"): return ["ok", [[UA], []]]
    if not d.get("models"): return ["err"]
    uri = dict(d["models"][0]["attrs"]).get("ModelUri")
    inc = set() if uri == UA else {UA}
    for u in d.get("uris") or []:
        if u != uri: inc.add(u)
    return ["ok", [uaconv.opt(uri), sorted(inc)]]

def check(ctx):
    rng = ctx.rng
    ctx.rule = ("documents from the shared generator with header variations: zero, one or several models, 0-2 required models, missing ModelUri/Version/PublicationDate, URI tables of any "
                "length/order with repeated and base entries, no NamespaceUris, base documents under other file names and other documents named like the base nodeset; every document is given to both "
                "helpers, to get_xml_namespaces and, in sets, to exclude_files_not_in_namespaces with filter lists (subsets, unknown URIs, empty strings) and to parse_xml_files for the models. "
                "Distinct by SHA-256; non-trivial when the header deviates from one-model/one-table.")
    ctx.trusted = list(parseprops.TRUSTED) + ["the JSON helper is run on the side file produced by pre_process_xml_to_json of the same document; header elements are rendered in the usual order NamespaceUris, Models, Aliases"]
    work = os.path.join(vlib.WORK, "c18_%d" % os.getpid())
    reqs = []; meta = []
    try:
        for ci in range(40 if ctx.quick() else 700):
            vlib.pandas_mode(ci)
            g, ds = parseprops.make_case(rng, True)
            docset = []
            for fname, d, local in ds:
                name, d2 = variants(rng, d, fname)
                while any(name == n for n, _ in docset): name = "x" + name
                docset.append((name, d2))
            if ci == 3:
                # two documents that declare the SAME model, attribute for attribute (one namespace exported as two part files): listed once per document
                import random as _r
                da_ = docs.simple_doc(_r.Random(31), "urn:verif:parts", n_nodes=2); db_ = docs.simple_doc(_r.Random(32), "urn:verif:parts", n_nodes=3)
                db_["models"] = copy.deepcopy(da_["models"])
                docset += [("yy_part_a.xml", da_), ("yy_part_b.xml", db_)]
            if ci == 2:
                # a header that is long in bytes: a namespace table of several thousand entries stands in front of the Models element (about 400 KiB)
                import random as _r
                dl = docs.simple_doc(_r.Random(ci), "urn:verif:longheader", n_nodes=2)
                dl["uris"] = list(dl.get("uris") or []) + ["urn:verif:filler:%06d:%s" % (i, "x" * 40) for i in range(5000)]
                docset.append(("zz_long_header.xml", dl))
            shutil.rmtree(work, ignore_errors=True); os.makedirs(work)
            for name, d in docset:
                path = os.path.join(work, name)
                text_ = docs.render(d, rng, dict(prefix=rng.choice([None, "ua"])))
                if ci % 3 == 1:
                    import random as _r
                    text_ = docs.entityfy(text_, _r.Random(ci))       # spelled with entities of an internal DTD subset (same infoset)
                open(path, "w", encoding="utf-8").write(text_)
                x, j, fn = impl_helpers(path)
                reqs.append([Sym("c18_helpers"), parsecmp.doc_sx(path, d)]); meta.append(("helpers", name, d, (x, j, fn)))
                odd = (d.get("models") is None or len(d["models"]) != 1 or d.get("uris") is None or name.endswith("NodeSet2.xml"))
                ctx.record(dict(case=ci, file=name, models=len(d["models"]) if d.get("models") is not None else None, uris=d.get("uris")), odd, ["helpers"])
                want = expected_helper(name, d)
                xo = x if x[0] == "ok" else ["err"]; jo = j if j[0] == "ok" else ["err"]
                case = dict(kind="header", name=name, doc=parsecmp.doc_sx(name, d)[:4])
                if xo != want: ctx.fail("C18/xml-helper", case, "XML helper %r, expected %r" % (x, want))
                if jo != xo:
                    sig = "C18/helpers-disagree-no-namespaceuris" if d.get("uris") is None and x[0] == "ok" and j[0] == "err" else "C18/helpers-disagree"
                    ctx.fail(sig, case, "XML helper %r, JSON helper %r" % (x, j))
            # the filter
            paths = [os.path.join(work, n) for n, _ in docset]
            alluris = sorted(set(u for n, d in docset for m in (d.get("models") or []) for k, u in m["attrs"] if k == "ModelUri") | {UA, "urn:unknown"})
            for fi in range(3):
                flt = rng.sample(alluris, rng.randint(0, len(alluris))) + ([""] if rng.random() < 0.2 else [])
                from opcua_tools.nodeset_parser import exclude_files_not_in_namespaces
                # the third list names some file twice (a caller that concatenates lists): every entry is kept or dropped on its own
                listed = list(docset) + ([rng.choice(docset) for _ in range(rng.randint(1, 2))] if fi == 2 and docset else [])
                if fi == 2: rng.shuffle(listed)
                paths = [os.path.join(work, n) for n, _ in listed]
                try: kept = ["ok", sorted(os.path.basename(p) for p in exclude_files_not_in_namespaces(list(paths), list(flt)))]
                except BaseException as e: kept = ["err", type(e).__name__]
                reqs.append([Sym("c18_filter"), flt, [parsecmp.doc_sx(os.path.join(work, n), d) for n, d in listed]]); meta.append(("filter", flt, listed, kept))
                ctx.record(dict(case=ci, filter=flt, repeated=fi == 2), bool(flt), ["filter", "repeated-path" if fi == 2 else "distinct-paths"])
                want = []
                for n, d in listed:
                    uris = ["http://opcfoundation.org/UA", UA] if n.endswith("Opc.Ua.NodeSet2.xml") else [u for m in (d.get("models") or []) for k, u in m["attrs"] if k == "ModelUri" and u]
                    if any(u in flt for u in uris if u): want.append(n)
                if kept != ["ok", sorted(want)]: ctx.fail("C18/filter", dict(kind="filter", filter=flt, files=[n for n, _ in docset]), "kept %r, expected %r" % (kept, sorted(want)))
            # models in parse output
            files = [(n, open(os.path.join(work, n), encoding="utf-8").read()) for n, _ in docset]
            out, res = parsecmp.impl_parse(work, files)
            if out[0] == "ok":
                want = []
                for n, d in sorted(docset, key=lambda x: x[0]):
                    for m in d.get("models") or []:
                        a = dict(m["attrs"])
                        want.append([uaconv.opt(a.get("ModelUri")), uaconv.opt(a.get("PublicationDate")), uaconv.opt(a.get("Version")),
                                     [[uaconv.opt(dict(r).get("ModelUri")), uaconv.opt(dict(r).get("PublicationDate")), uaconv.opt(dict(r).get("Version"))] for r in m.get("required") or []]])
                if out[1][3] != uaconv.canon_sx(want): ctx.fail("C18/models", dict(kind="models", files=files), "models %r, declared %r" % (out[1][3], want))
    finally:
        shutil.rmtree(work, ignore_errors=True)
    ans = vlib.run_model(reqs, shards=8)
    for m, a in zip(meta, ans):
        a = vlib.untext(a)
        if m[0] == "helpers":
            _, name, d, (x, j, fn) = m
            mo = [dec_nd(a[0]), dec_nd(a[1]), a[2]]
            io = [dec_nd(x) if x[0] == "ok" else ["err"], dec_nd(j) if j[0] == "ok" else ["err"], fn[1] if fn[0] == "ok" else ["err"]]
            io = [[io[0][0], [io[0][1][0], io[0][1][1]]] if io[0][0] == "ok" else ["err"], [io[1][0], [io[1][1][0], io[1][1][1]]] if io[1][0] == "ok" else ["err"], io[2]]
            if io != mo: ctx.disagree("helpers", dict(file=name, uris=d.get("uris"), models=d.get("models")), io, mo)
        else:
            _, flt, docset, kept = m
            mo = ["ok", sorted(os.path.basename(x) for x in a)]
            if kept != mo: ctx.disagree("filter", dict(filter=flt, files=[n for n, _ in docset]), kept, mo)
    pick = [i for i in range(len(reqs)) if len(vlib.to_sx(reqs[i])) < 5000][:20]
    ctx.crosscheck = vlib.coq_crosscheck([reqs[i] for i in pick], [ans[i] for i in pick], "c18")

def oracle_case(case):
    if case.get("kind") == "no-uris":
        work = os.path.join(vlib.WORK, "c18r_%d" % os.getpid()); shutil.rmtree(work, ignore_errors=True); os.makedirs(work)
        try:
            d = dict(uris=None, models=[dict(attrs=[("ModelUri", "urn:x")], required=[])], aliases=None, nodes=[])
            p = os.path.join(work, "a.xml"); open(p, "w").write(docs.render(d))
            x, j, fn = impl_helpers(p)
            return [("C18/helpers-disagree-no-namespaceuris", "XML helper %r, JSON helper %r" % (x, j))] if (x[0], j[0]) == ("ok", "err") else []
        finally: shutil.rmtree(work, ignore_errors=True)
    return []
