"""Cases and oracles for the writer properties C05 (round trip), C06 (written document = requested part), C07 (well-formed, schema-valid, self-contained)."""
import os, shutil, io, datetime, copy, random
import pandas as pd
import lxml.etree as ET
import vlib, docs, nsgen, parsecmp, parseprops, graphprops, uaconv, c08
from vlib import Sym
from docs import UA, NS_NODESET

T0 = datetime.datetime(2024, 1, 2, 3, 4, 5, tzinfo=datetime.timezone.utc)
import re
NOWTXT = re.compile(r'PublicationDate="\d{4}-\d\d-\d\dT\d\d:\d\d:\d\d\.\d{6}\+00:00"')
NODE_TAGS = set(docs.CLASSES)

def graph_tables(G):
    """UAGraph -> the canonical form of parsecmp.canon_result (NodeIds found through the id column, whatever the row labels and order are)"""
    um = {int(i): n for i, n in zip(G.nodes["id"], G.nodes["NodeId"])}
    return parsecmp.canon_result(dict(nodes=G.nodes, references=G.references, lookup_df=None, uniq_map=um, namespaces=G.namespaces, models=G.models))

def graph_variant(G, rng, kinds=None):
    """the same graph held differently: UAGraph takes any node/reference tables, so row order, row labels and gaps in the ids are the caller's business.
    'pruned' also removes one namespace's nodes (and what points at them), as a user trimming a graph would."""
    from opcua_tools.ua_graph import UAGraph
    kind = rng.choice(kinds or ["as-parsed", "as-parsed", "permuted", "relabelled", "pruned"])
    if kind == "as-parsed": return kind, G
    nodes = G.nodes.copy(); refs = G.references.copy()
    if kind == "permuted":
        nodes = nodes.sample(frac=1, random_state=rng.randrange(2 ** 31)); refs = refs.sample(frac=1, random_state=rng.randrange(2 ** 31))
    elif kind == "relabelled":
        nodes.index = [1000 + 3 * i for i in range(len(nodes))][::-1]; refs.index = [7 + 2 * i for i in range(len(refs))]
    else:
        cand = sorted(set(int(x) for x in nodes["ns"] if int(x) != 0))
        if len(cand) < 2: return "as-parsed", G
        k = rng.choice(cand)
        gone = set(int(i) for i in nodes.loc[nodes["ns"] == k, "id"])
        nodes = nodes[nodes["ns"] != k].copy()
        refs = refs[~(refs["Src"].isin(gone) | refs["Trg"].isin(gone) | refs["ReferenceType"].isin(gone))].copy()
        for c in parsecmp.REFCOLS:
            if c in nodes.columns: nodes[c] = nodes[c].map(lambda v: pd.NA if (not pd.isna(v) and int(v) in gone) else v)
        nodes = nodes.reset_index(drop=True); refs = refs.reset_index(drop=True)
    return kind, UAGraph(nodes=nodes, references=refs, namespaces=list(G.namespaces), models=copy.deepcopy(G.models))

def local(tag): return ET.QName(tag).localname
def xml_to_docsx(text, fname):
    """written NodeSet text -> the model's doc wire form (what an XML reader sees)"""
    root = ET.fromstring(text.encode("utf-8"))
    uris = models = aliases = None; nodes = []
    for ch in root:
        if not isinstance(ch.tag, str): continue
        t = local(ch.tag)
        if t == "NamespaceUris": uris = [u.text or "" for u in ch]
        elif t == "Models":
            models = [[[[k, v] for k, v in m.attrib.items()], [[[k, v] for k, v in r.attrib.items()] for r in m]] for m in ch]
        elif t == "Aliases": aliases = [[a.get("Alias"), uaconv.opt(a.text)] for a in ch]
        elif t in NODE_TAGS:
            disp = [c for c in ch if isinstance(c.tag, str) and local(c.tag) == "DisplayName"]
            desc = [c for c in ch if isinstance(c.tag, str) and local(c.tag) == "Description"]
            refs = [[[[k, v] for k, v in r.attrib.items()], uaconv.opt(r.text)] for rs in ch if isinstance(rs.tag, str) and local(rs.tag) == "References" for r in rs]
            val = [c for c in ch if isinstance(c.tag, str) and local(c.tag) == "Value"]
            nodes.append([t, [[k, v] for k, v in ch.attrib.items()], [] if not disp else [uaconv.opt(disp[0].text)], [] if not desc else [uaconv.opt(desc[0].text)],
                          sorted(refs, key=repr), [] if not val else [uaconv.el2sx(val[0])]])
    return uaconv.canon_sx([fname, uaconv.opt(uris), uaconv.opt(models), uaconv.opt(aliases), sorted(nodes, key=repr)])

def dec_doc(a):
    a = vlib.untext(a)
    if a[0] == "ok":
        d = a[1]
        nodes = sorted([[n[0], n[1], n[2], n[3], sorted(n[4], key=repr), n[5]] for n in d[4]], key=repr)
        return ["ok", [d[0], d[1], d[2], d[3], nodes]]
    return ["err", a[1]]

def same_doc(io, mo):
    """equality of two canonical documents, where the model's NOW stands for any current time stamp"""
    if io == mo: return True
    try:
        a = copy.deepcopy(io); b = copy.deepcopy(mo)
        for ma, mb in zip(a[2][0], b[2][0]):
            for ra, rb in zip(ma[1], mb[1]):
                for x, y in zip(ra, rb):
                    if y == ["PublicationDate", "NOW"] and x[0] == "PublicationDate": x[1] = "NOW"
        return a == b
    except Exception:
        return False

def impl_write(G, uri, inc, newver=None):
    out = io.StringIO()
    try:
        G.write_nodeset(out, uri, include_outgoing_instance_level_references=inc, last_modified=T0, publication_date=T0, new_model_version=newver)
        return ["ok", out.getvalue()]
    except BaseException as e:
        return ["err", type(e).__name__, str(e)[:200]]

def write_request(tables, uri, inc, newver, fname):
    return [Sym("write_doc"), tables[:4], [uri, inc, T0.isoformat(), "NOW", [] if newver is None else [newver], fname]]

def make_graph(rng, quick, hostile=False, clash=False, shape=None, extra=None, sort_first=None):
    if shape == "slash-twin":      # two namespaces whose URIs differ only in a final slash, both with nodes (and so both with a model)
        g = nsgen.gen_graph(rng, n_ns=2, n_nodes=rng.randint(5, 7), hostile=False, dangling=False, value_gen=parseprops.value_gen, slash_twin=True)
        for j_, u_ in enumerate(g.uris):
            if not [k for k in g.order if k[0] == u_]:
                k = (u_, "i", str(7400 + j_)); g.nodes[k] = dict(cls="UAObject", bname=(u_, "Twin%d" % j_), display="Twin%d" % j_, desc=None, attrs={}, value=None); g.order.append(k)
                g.refs.append(((UA, "i", "85"), k, (UA, "i", "35")))
    elif shape == "enum":      # one namespace that is certain to have nodes; the caller adds an enumeration type and variables typed by it
        g = nsgen.gen_graph(rng, n_ns=1, n_nodes=rng.randint(3, 5), hostile=False, dangling=False, value_gen=parseprops.value_gen)
    elif shape == "hub":
        g = nsgen.gen_graph(rng, n_ns=12, n_nodes=rng.randint(6, 10), hostile=False, dangling=False, value_gen=parseprops.value_gen)
    elif shape == "wide":      # ten namespaces with one or two nodes each and sparse dependencies: compaction over a long table
        g = nsgen.gen_graph(rng, n_ns=rng.randint(9, 11), n_nodes=rng.randint(12, 16), hostile=hostile, dangling=False, value_gen=parseprops.value_gen)
    else:
        g = nsgen.gen_graph(rng, n_ns=3 if shape else rng.randint(1, 3), n_nodes=rng.randint(5, 7) if shape else rng.randint(2, 6 if quick else 9), hostile=hostile, dangling=False, value_gen=parseprops.value_gen)
    if shape == "skip-middle" and len(g.uris) == 3:
        # namespace A (first) never uses B (second) but qualifies a browse name with C (third): when A is written, B is dropped and C's index moves
        A, B, C = g.uris
        mineA = [k for k in g.order if k[0] == A]
        if not mineA:
            k = (A, "i", "7001"); g.nodes[k] = dict(cls="UAObject", bname=(A, "Shape"), display="Shape", desc=None, attrs={}, value=None); g.order.append(k); mineA = [k]
            g.refs.append(((UA, "i", "85"), k, (UA, "i", "35")))
        g.nodes[mineA[0]]["bname"] = (C, g.nodes[mineA[0]]["bname"][1])
        for k in mineA[1:]:
            if g.nodes[k]["bname"][0] == B: g.nodes[k]["bname"] = (A, g.nodes[k]["bname"][1])
        for k in mineA:
            for a_, v_ in list(g.nodes[k]["attrs"].items()):
                if isinstance(v_, tuple) and v_[0] == B: g.nodes[k]["attrs"][a_] = (UA, "i", "85") if a_ != "DataType" else (UA, "i", "24")
        g.refs = [r for r in g.refs if not ((r[0][0] == A or r[1][0] == A) and B in (r[0][0], r[1][0], r[2][0]))]
    if shape == "attr-only" and len(g.uris) == 3:
        # namespace A reaches C ONLY through node attributes (a DataType and a MethodDeclarationId defined in C): no reference, no browse name
        A, B, C = g.uris
        dC = (C, "i", "7101"); mC = (C, "s", "DeclaredMethod"); vA = (A, "i", "7102"); mA = (A, "s", "CallIt")
        org = (UA, "i", "35"); objs = (UA, "i", "85")
        g.nodes[dC] = dict(cls="UADataType", bname=(C, "DeviceState"), display="DeviceState", desc=None, attrs={}, value=None)
        g.nodes[mC] = dict(cls="UAMethod", bname=(C, "DeclaredMethod"), display="DeclaredMethod", desc=None, attrs={}, value=None)
        g.nodes[vA] = dict(cls="UAVariable", bname=(A, "State"), display="State", desc=None, attrs={"DataType": dC}, value=None)
        g.nodes[mA] = dict(cls="UAMethod", bname=(A, "CallIt"), display="CallIt", desc=None, attrs={"MethodDeclarationId": mC}, value=None)
        for k in (dC, mC, vA, mA):
            g.order.append(k); g.refs.append((objs, k, org))
        for k in [k for k in g.order if k[0] == A and k not in (vA, mA)]:
            n = g.nodes[k]
            if n["bname"][0] == C: n["bname"] = (A, n["bname"][1])
            for a_, v_ in list(n["attrs"].items()):
                if isinstance(v_, tuple) and v_[0] == C: n["attrs"][a_] = (UA, "i", "85") if a_ != "DataType" else (UA, "i", "24")
        g.refs = [r for r in g.refs if not ((r[0][0] == A or r[1][0] == A) and C in (r[0][0], r[1][0], r[2][0]))]
    wide_names = None
    if shape == "wide" and len(g.uris) >= 9:
        # the last namespace uses the base namespace and exactly ONE other namespace, the one that the re-indexing puts at index 8; that namespace's
        # file is parsed before the written one's.  (Index sets such as {0, 8, 1} are where an unordered container does not come out sorted.)
        U = g.uris[-1]; D = g.uris[6]
        mineU = [k for k in g.order if k[0] == U]
        if not mineU:
            k = (U, "i", "7201"); g.nodes[k] = dict(cls="UAObject", bname=(U, "WideU"), display="WideU", desc=None, attrs={}, value=None); g.order.append(k); mineU = [k]
            g.refs.append(((UA, "i", "85"), k, (UA, "i", "35")))
        mineD = [k for k in g.order if k[0] == D]
        if not mineD:
            k = (D, "i", "7202"); g.nodes[k] = dict(cls="UAObject", bname=(D, "WideD"), display="WideD", desc=None, attrs={}, value=None); g.order.append(k); mineD = [k]
            g.refs.append(((UA, "i", "85"), k, (UA, "i", "35")))
        for k in mineU:
            n_ = g.nodes[k]
            if n_["bname"][0] not in (U, UA): n_["bname"] = (U, n_["bname"][1])
            for a_, v_ in list(n_["attrs"].items()):
                if isinstance(v_, tuple) and v_[0] not in (U, UA): n_["attrs"][a_] = (UA, "i", "85") if a_ != "DataType" else (UA, "i", "24")
        g.refs = [r for r in g.refs if not ((r[0][0] == U or r[1][0] == U) and any(x[0] not in (U, UA) for x in r))]
        g.refs.append((mineU[0], mineD[0], (UA, "i", "35")))
        # the namespace table of the graph is [UA] + g.uris in this order: files named in that order, tables not shuffled, and the first file using
        # nothing but itself and the base namespace (a file declares the namespaces it uses first)
        F = g.uris[0]
        if not [k for k in g.order if k[0] == F]:
            k = (F, "i", "7203"); g.nodes[k] = dict(cls="UAObject", bname=(F, "WideF"), display="WideF", desc=None, attrs={}, value=None); g.order.append(k)
            g.refs.append(((UA, "i", "85"), k, (UA, "i", "35")))
        for k in [k for k in g.order if k[0] == F]:
            n_ = g.nodes[k]
            if n_["bname"][0] not in (F, UA): n_["bname"] = (F, n_["bname"][1])
            for a_, v_ in list(n_["attrs"].items()):
                if isinstance(v_, tuple) and v_[0] not in (F, UA): n_["attrs"][a_] = (UA, "i", "85") if a_ != "DataType" else (UA, "i", "24")
        g.refs = [r for r in g.refs if not ((r[0][0] == F or r[1][0] == F) and any(x[0] not in (F, UA) for x in r))]
        wide_names = {u: "ns_%02d_w.xml" % i for i, u in enumerate(g.uris)}
    if shape == "markup-id":
        # a node of a written namespace whose string identifier carries markup characters and that has references across the namespace border
        own = [k for k in g.order if k[0] != UA]
        if own:
            old_k = own[0]; new_k = (old_k[0], "s", "P&V <%s>" % old_k[2][:6])
            g.nodes[new_k] = g.nodes.pop(old_k); g.order[g.order.index(old_k)] = new_k
            g.refs = [tuple(new_k if x == old_k else x for x in r) for r in g.refs]
            # (no node ATTRIBUTE names it: identifiers spliced raw into attributes are a recorded finding of their own and would absorb what this shape shows)
            for n_ in g.nodes.values():
                for a_, v_ in list(n_["attrs"].items()):
                    if v_ == old_k: n_["attrs"][a_] = (UA, "i", "85") if a_ != "DataType" else (UA, "i", "24")
            # ... and texts that literally contain entity-looking sequences (they must come back as they are)
            g.nodes[new_k]["display"] = "R&amp;D &lt;x&gt;"; g.nodes[new_k]["desc"] = "&#65; ]]> &quot;q&quot; <![CDATA[x]]> &amp;amp;"
            others = [k for k in g.order if k[0] != new_k[0]]
            g.refs.append((new_k, rng.choice(others), (UA, "i", "35"))); g.refs.append((rng.choice(others), new_k, (UA, "i", "47")))
    if shape == "hub" and len(g.uris) >= 11:
        # the first namespace refers to a node of EVERY other namespace: its document's namespace table has more than ten entries
        U = g.uris[0]
        hub = (U, "s", "Hub"); g.nodes[hub] = dict(cls="UAObject", bname=(U, "Hub"), display="Hub", desc=None, attrs={}, value=None); g.order.append(hub)
        g.refs.append(((UA, "i", "85"), hub, (UA, "i", "35")))
        for j, V in enumerate(g.uris[1:]):
            mineV = [k for k in g.order if k[0] == V]
            if not mineV:
                k = (V, "i", str(7300 + j)); g.nodes[k] = dict(cls="UAObject", bname=(V, "Spoke%d" % j), display="Spoke%d" % j, desc=None, attrs={}, value=None); g.order.append(k); mineV = [k]
                g.refs.append(((UA, "i", "85"), k, (UA, "i", "35")))
            g.refs.append((hub, mineV[0], (UA, "i", "47" if j % 2 else "35")))
    r_eq = rng.random()
    if shape in (None, "markup-id", "attr-only") and g.uris:
        # equal-but-distinct values inside ONE namespace (whatever is keyed by == would write one of them twice)
        from opcua_tools import ua_data_types as T_
        NS_ = "http://opcfoundation.org/UA/2008/02/Types.xsd"
        for nm_, v_ in (("ZeroPlus", T_.UADouble(0.0)), ("ZeroMinus", T_.UADouble(-0.0)), ("ZeroList", T_.UAListOf((T_.UAFloat(-0.0), T_.UAFloat(0.0)), "Float")),
                        # a string written with preserved white space around it, and a raw structure whose document binds the types namespace to a prefix
                        ("Padded", T_.UAString("P-101 preserve")),
                        ("RawArgs", T_.UAListOf((T_.UAExtensionObject(type_nodeid=T_.UANodeId(0, "i", "297"), body=T_.UAXMLElement('<Argument xmlns="%s"><Name>prefixed</Name><ValueRank>-1</ValueRank></Argument>' % NS_)),), "ExtensionObject"))):
            k_ = (g.uris[0], "s", nm_); g.nodes[k_] = dict(cls="UAVariable", bname=(g.uris[0], nm_), display=nm_, desc=None, attrs={}, value=v_); g.order.append(k_)
            g.refs.append(((UA, "i", "85"), k_, (UA, "i", "35")))
    if extra: extra(g)
    if clash:          # one browse name carried by nodes of two node classes
        own = [k for k in g.order if k[0] != UA]
        pairs = [(a, b) for a in own for b in own if g.nodes[a]["cls"] != g.nodes[b]["cls"]]
        if pairs:
            a, b = rng.choice(pairs); g.nodes[b]["bname"] = (g.nodes[b]["bname"][0], g.nodes[a]["bname"][1])
    # the write-time validator (C16) must not interfere: a valued variable declares the built-in type of its value, or none that is built-in
    from opcua_tools import ua_data_types as T
    for k, n in list(g.nodes.items()):
        if n["value"] is not None and not n.get("keep_datatype"):
            name = type(n["value"]).__name__[2:]
            if name in nsgen.BUILTIN_IDS:
                dk = (UA, "i", str(nsgen.BUILTIN_IDS[name]))
                if dk not in g.nodes:
                    g.nodes[dk] = dict(cls="UADataType", bname=(UA, name), display=name, desc=None, attrs={}, value=None); g.order.append(dk)
                n["attrs"]["DataType"] = dk
            else:
                n["attrs"]["DataType"] = (UA, "i", "24")          # BaseDataType: not a built-in name
    # every third graph has a companion file whose name sorts BEFORE the base nodeset: the internal ids of the base nodes then differ from graph to graph
    r_first = rng.random()
    fnames = {g.uris[0]: "A%02d_first.xml" % rng.randint(0, 99)} if g.uris and (r_first < 0.35 if sort_first is None else sort_first) else None
    if wide_names: fnames = wide_names
    ds = nsgen.serialise(g, rng, value_xml=parseprops.value_xml, file_names=fnames, perm=not wide_names)
    return g, ds

REG_REQS = []; REG_META = []; TXT_REQS = []; TXT_META = []; CAUSES_OF = {}; RT_REQS = []; RT_META = []
def correspondence(ctx, prop, rng, work, reqs, meta, G, tables, g, ci, inc_choices=(True, False)):
    outs = {}
    for uri in g.uris:
        if uri not in G.namespaces: continue
        for inc in inc_choices:
            newver = "9.9.9" if rng.random() < 0.15 else None
            G2 = copy.deepcopy(G)                                  # the write must not be influenced by (or influence) other writes here
            out = impl_write(G2, uri, inc, newver)
            reqs.append(write_request(tables, uri, inc, newver, "out.xml")); meta.append((ci, uri, inc, out))
            REG_REQS.append([Sym("write_regular")] + write_request(tables, uri, inc, newver, "out.xml")[1:])
            TXT_REQS.append([Sym("write_text")] + write_request(tables, uri, inc, newver, "out.xml")[1:]); TXT_META.append((ci, uri, inc, out))
            REG_META.append((ci, uri, inc, write_causes(G, tables, uri, out, inc)))
            CAUSES_OF[(ci, uri, inc)] = REG_META[-1][3]
            outs[(uri, inc)] = out
    return outs

# ---------------------------------------------------------------------------------------------- independent reader + oracles
class BadNodeId(Exception): pass
def read_nodeset(text):
    """a small NodeSet2 reader (lxml + 40 lines), independent of the library's parser: URI-level nodes and references of one document"""
    root = ET.fromstring(text.encode("utf-8"))
    q = lambda n: "{%s}%s" % (NS_NODESET, n)
    uris = [UA] + [u.text for u in root.findall(q("NamespaceUris") + "/" + q("Uri"))]
    aliases = {a.get("Alias"): a.text for a in root.findall(q("Aliases") + "/" + q("Alias"))}
    used_idx = set()
    def key(text):
        text = aliases.get(text, text).strip()
        if text.startswith("ns="):
            head, rest = text.split(";", 1); idx = int(head[3:])
        else: idx, rest = 0, text
        if "=" not in rest: raise BadNodeId(text)
        t, ident = rest.split("=", 1); used_idx.add(idx)
        return (uris[idx] if idx < len(uris) else "?undeclared-%d" % idx, t, ident)
    nodes = []; refs = []
    for el in root:
        if not isinstance(el.tag, str) or local(el.tag) not in NODE_TAGS: continue
        a = dict(el.attrib); me = key(a["NodeId"])
        bn = a["BrowseName"]; pfx, name = (bn.split(":", 1) if ":" in bn else ("0", bn)); used_idx.add(int(pfx))
        attrs = {}
        for k, v in a.items():
            if k in ("NodeId", "BrowseName"): continue
            attrs[k] = key(v) if k in parsecmp.REFCOLS else v
        disp = el.find(q("DisplayName")); desc = el.find(q("Description")); val = el.find(q("Value"))
        nodes.append(dict(cls=local(el.tag), key=me, bname=(uris[int(pfx)] if int(pfx) < len(uris) else "?", name), display=(disp.text or "") if disp is not None else None,
                          desc=(desc.text or "") if desc is not None else None, attrs=attrs, value=(None if val is None or len(val) == 0 else uaconv.canon_sx(uaconv.el2sx(val[0])))))
        for r in el.findall(q("References") + "/" + q("Reference")):
            o = key(r.text); ty = key(r.get("ReferenceType"))
            refs.append((me, o, ty) if r.get("IsForward", "true") != "false" else (o, me, ty))
    models = [dict(m.attrib, required=[dict(r.attrib) for r in m]) for m in root.findall(q("Models") + "/" + q("Model"))]
    return dict(uris=uris, nodes=nodes, refs=refs, models=models, used_idx=used_idx)

WRITTEN_ATTRS = ["DataType", "ValueRank", "AccessLevel", "UserAccessLevel", "IsAbstract", "Symmetric", "ParentNodeId", "ArrayDimensions", "MinimumSamplingInterval",
                 "MethodDeclarationId", "EventNotifier", "Historizing", "WriteMask", "SymbolicName"]
def graph_uri_level(tables):
    """URI-level content of a graph (canonical tables): nodes by key, reference set"""
    ns = tables[0]
    nodes = {}
    for r in tables[1]:
        k = parseprops.key_of_nid(r[1], ns)
        attrs = {}
        for a, v in r[6]:
            attrs[a] = parseprops.key_of_nid(v[1], ns) if v[0] == "n" else v[1]
        nodes.setdefault(k, []).append(dict(cls=r[0], bname=(ns[int(r[3][0])] if r[3] else None, r[2]), display=r[4], desc=r[5], attrs=attrs, value=r[7]))
    refs = [tuple(parseprops.key_of_nid(x, ns) for x in t) for t in tables[2]]
    return nodes, refs

def expected_attr(a, v):
    if a in ("IsAbstract", "Symmetric", "Historizing"): return str(v).lower()
    return v

def oracle_c06(tables, uri, inc, out):
    """the written document denotes exactly the requested namespace's part of the graph"""
    fails = []
    if out[0] != "ok": return [("C06/write-raises", "%s: %s" % (out[1], out[2][:100]))]
    try: doc = read_nodeset(out[1])
    except Exception as e: return [("C06/unreadable", "%s: %s" % (type(e).__name__, str(e)[:100]))]
    gnodes, grefs = graph_uri_level(tables)
    want = {k: v for k, v in gnodes.items() if k[0] == uri}
    got = {}
    for n in doc["nodes"]: got.setdefault(n["key"], []).append(n)
    if set(got) != set(want): fails.append(("C06/node-set", "missing %r, extra %r" % (sorted(set(want) - set(got))[:3], sorted(set(got) - set(want))[:3])))
    for k in set(got) & set(want):
        if len(got[k]) != len(want[k]): fails.append(("C06/node-multiplicity", "%r" % (k,))); continue
        n, w = got[k][0], want[k][0]
        if n["cls"] != w["cls"] or n["bname"] != w["bname"] or (n["display"] or "") != w["display"] or (n["desc"] or "") != w["desc"]:
            fails.append(("C06/node-fields", "%r: %r vs %r" % (k, (n["cls"], n["bname"], n["display"], n["desc"]), (w["cls"], w["bname"], w["display"], w["desc"]))))
        for a in WRITTEN_ATTRS:
            wv = w["attrs"].get(a); gv = n["attrs"].get(a)
            if wv is not None: wv = expected_attr(a, wv)
            if wv in ("", None) and gv is None: continue
            if a in ("IsAbstract", "Symmetric") and (gv or "false") == (wv or "false"): continue
            if gv != wv:
                fails.append(("C06/attribute:" + a, "%r %s: written %r, graph %r" % (k, a, gv, wv)))
        if (w["value"] != []) != (n["value"] is not None): fails.append(("C06/value-presence:" + w["cls"], "%r" % (k,)))
    inU = lambda x: x[0] == uri
    if inc: wrefs = [t for t in grefs if inU(t[0]) or inU(t[1])]
    else:
        special = set(k for k, v in gnodes.items() if v[0]["cls"] == "UAReferenceType" and v[0]["bname"][1] in ("HasTypeDefinition", "HasModellingRule"))
        wrefs = [t for t in grefs if (inU(t[0]) or inU(t[1])) and (inU(t[1]) or t[2] in special)]
    if sorted(set(doc["refs"])) != sorted(set(wrefs)):
        fails.append(("C06/references", "missing %r, extra %r" % (sorted(set(wrefs) - set(doc["refs"]))[:2], sorted(set(doc["refs"]) - set(wrefs))[:2])))
    elif len(doc["refs"]) != len(set(doc["refs"])): pass      # declared on both ends is allowed
    if any(i >= len(doc["uris"]) for i in doc["used_idx"]): fails.append(("C06/undeclared-index", "%r with %d URIs" % (sorted(doc["used_idx"]), len(doc["uris"]))))
    return fails

_schema = None
def schema():
    global _schema
    if _schema is None:
        import opcua_tools
        _schema = ET.XMLSchema(ET.parse(os.path.join(os.path.dirname(opcua_tools.__file__), "static", "UANodeSet.xsd")))
    return _schema

def oracle_c07(uri, out):
    if out[0] != "ok": return [("C07/write-raises", "%s: %s" % (out[1], out[2][:100]))]
    fails = []
    try: root = ET.fromstring(out[1].encode("utf-8"))
    except ET.XMLSyntaxError as e: return [("C07/ill-formed", str(e)[:150])]
    s = schema()
    if not s.validate(root):
        msgs = sorted(set(str(e.message)[:110] for e in s.error_log))[:3]
        fails.append(("C07/schema-invalid", "; ".join(msgs)))
    try: doc = read_nodeset(out[1])
    except BadNodeId as e: return fails + [("C07/not-a-nodeid", "%r is written where a NodeId belongs" % (str(e)[:60],))]
    if len(doc["uris"]) < 2 or doc["uris"][1] != uri: fails.append(("C07/first-uri", "%r" % (doc["uris"][:3],)))
    if not doc["models"] or doc["models"][0].get("ModelUri") != uri: fails.append(("C07/model-uri", "%r" % ([m.get("ModelUri") for m in doc["models"]],)))
    if any(i >= len(doc["uris"]) for i in doc["used_idx"]): fails.append(("C07/undeclared-index", "%r with %d URIs" % (sorted(doc["used_idx"]), len(doc["uris"]))))
    return fails

C05_COLS = ["DataType", "ValueRank", "ArrayDimensions", "AccessLevel", "UserAccessLevel", "IsAbstract", "Symmetric", "ParentNodeId", "MethodDeclarationId", "EventNotifier",
            "Historizing", "MinimumSamplingInterval", "WriteMask", "SymbolicName"]
STRUCTURAL_CAUSES = {"empty-namespace", "namespace-without-base-use", "quote-in-attribute", "raw-nodeid-attribute", "uri-unescaped"}
C05_INFO = dict(skipped=[], empty_written=[])
def attribute_c05(sig, causes):
    """which recorded findings may absorb a failure with this signature (a finding absorbs only what it explains)"""
    if sig == "C05/models": return causes & {"model-version-defaulted"}
    if sig == "C05/write-raises-empty": return {"empty-namespace"}
    if sig == "C05/write-raises" and "row-labels-as-ids" in causes: return {"row-labels-as-ids"}
    cs = causes & STRUCTURAL_CAUSES
    # a namespace without nodes whose write raised was left out of the round trip: it explains its own absence and nothing else
    if C05_INFO["skipped"] and not C05_INFO["empty_written"] and sig != "C05/namespaces": cs = cs - {"empty-namespace"}
    return cs

def oracle_c05(work, G, tables, g, base_file):
    """write every non-base namespace, parse the written files with the untouched base file, compare the graphs at URI level"""
    files = [base_file]
    C05_INFO["skipped"] = []; C05_INFO["empty_written"] = []
    early = []
    for i, uri in enumerate(u for u in G.namespaces[1:] if u != "None"):
        out = impl_write(copy.deepcopy(G), uri, True)
        empty = not (G.nodes["ns"] == G.namespaces.index(uri)).any()
        if out[0] != "ok":
            if empty:
                # nothing to write and nothing lost: the recorded finding 'empty-namespace'; the round trip goes on with the other namespaces
                C05_INFO["skipped"].append(uri); early.append(("C05/write-raises-empty", "%s: %s: %s" % (uri, out[1], out[2][:100]))); continue
            return early + [("C05/write-raises", "%s: %s: %s" % (uri, out[1], out[2][:100]))]
        if empty: C05_INFO["empty_written"].append(uri)
        files.append(("w%02d.xml" % i, out[1]))
    paths = graphprops.write_files(work, files)
    st, G2 = graphprops.build(paths)
    if G2 is None: return early + [("C05/reparse-raises", "%s: %s" % (st[1], st[2][:150]))]
    t2 = graph_tables(G2)
    n1, r1 = graph_uri_level(tables); n2, r2 = graph_uri_level(t2)
    fails = early
    if set(G.namespaces) - {"None"} != set(G2.namespaces) | set(C05_INFO["skipped"]): fails.append(("C05/namespaces", "%r vs %r" % (G.namespaces, G2.namespaces)))
    elif C05_INFO["skipped"] and set(G.namespaces) - {"None"} != set(G2.namespaces): fails.append(("C05/write-raises-empty", "namespaces without nodes are not in the re-parsed graph: %r" % (C05_INFO["skipped"],)))
    if set(n1) != set(n2): fails.append(("C05/node-set", "lost %r, new %r" % (sorted(set(n1) - set(n2))[:3], sorted(set(n2) - set(n1))[:3])))
    for k in set(n1) & set(n2):
        a, b = n1[k][0], n2[k][0]
        if len(n1[k]) != len(n2[k]): fails.append(("C05/node-multiplicity", "%r" % (k,)))
        for f in ("cls", "bname", "display", "desc"):
            if a[f] != b[f]: fails.append(("C05/" + f, "%r: %r -> %r" % (k, a[f], b[f])))
        for c in C05_COLS:
            x, y = a["attrs"].get(c), b["attrs"].get(c)
            if c in ("IsAbstract", "Symmetric") and (x or "false") == (y or "false"): continue
            if x != y: fails.append(("C05/attribute:" + c, "%r: %r -> %r" % (k, x, y)))
        if a["value"] != b["value"]: fails.append(("C05/value:" + a["cls"], "%r: %r -> %r" % (k, a["value"], b["value"])))
    if sorted(set(r1)) != sorted(set(r2)): fails.append(("C05/references", "lost %r, new %r" % (sorted(set(r1) - set(r2))[:2], sorted(set(r2) - set(r1))[:2])))
    elif len(r1) != len(r2): fails.append(("C05/reference-multiplicity", "%d -> %d rows" % (len(r1), len(r2))))
    def mods(G_): return sorted((m.get("uri"), m.get("version"), tuple(sorted((q.get("uri"), q.get("version")) for q in m.get("required_models", [])))) for m in G_.models)
    if mods(G) != mods(G2): fails.append(("C05/models", "%r -> %r" % (mods(G), mods(G2))))
    return fails

def run(ctx, prop):
    rng = ctx.rng
    work = os.path.join(vlib.WORK, "%s_%d" % (prop, os.getpid()))
    reqs = []; meta = []
    try:
        for ci in range({"quick": 14, "thorough": 300}[ctx.tier]):
            vlib.pandas_mode(ci + 1)
            shape = {0: "skip-middle", 1: "markup-id", 2: "slash-twin", 3: "wide", 4: "enum", 5: "attr-only", 6: "hub"}.get(ci % 7)
            # the structural shapes are generated without hostile text, so that what they show is not attributed to the recorded escaping findings
            hostile = rng.random() < 0.4 and shape is None
            # every seventh graph carries an enumeration type (with a second, valueless property) and variables typed by it: the typed value is part of the round trip
            enums = (lambda g_: nsgen.add_enums(g_, random.Random(ci), n_types=1, flavours=["strings" if ci % 2 == 0 else "values"], n_vars=2, kinds=["in", "in"], placeholder=False, version_prop="ref-after")) if ci % 7 == 4 else None
            g, ds = make_graph(rng, ctx.quick(), hostile=hostile, shape=shape, sort_first=(ci % 2 == 1), extra=enums)     # every second graph numbers its base nodes differently
            files = [(n, docs.render(d, rng)) for n, d, _ in ds]
            paths = graphprops.write_files(work, files)
            st, G = graphprops.build(paths)
            if G is None: continue
            vseed = rng.randrange(2 ** 31)
            # how the graph is held: as parsed for the wide shape (it depends on the order of the node table); re-labelled and pruned tables at fixed case numbers; random otherwise
            vkinds = ["as-parsed"] if shape == "wide" else {4: ["relabelled"], 7: ["relabelled"], 9: ["pruned"], 11: ["permuted"]}.get(ci % 14)
            # C05 is about graphs built from documents and re-parses the written files with the UNTOUCHED base file: a graph from which a namespace was
            # pruned is not such a graph (the base file may declare references to the pruned nodes), so the round trip uses the other variants only
            if prop == "C05": vkinds = ["permuted"] if vkinds == ["pruned"] else (vkinds or ["as-parsed", "as-parsed", "permuted", "relabelled"])
            variant, G = graph_variant(G, random.Random(vseed), *([vkinds] if vkinds else []))
            tables = graph_tables(G)
            outs = correspondence(ctx, prop, rng, work, reqs, meta, G, tables, g, ci, inc_choices=(True, False) if prop != "C05" else (True,))
            nodes_by_uri = {u: sum(1 for k in g.nodes if k[0] == u) for u in g.uris}
            for (uri, inc), out in outs.items():
                feats = ["inc" if inc else "no-outgoing", "hostile" if hostile else "plain", "nodes=%d" % min(nodes_by_uri.get(uri, 0), 3), "graph=" + variant]
                ctx.record(dict(case=ci, uri=uri, inc=inc, files=[n for n, _ in files]), len(g.uris) > 1, feats)
                causes = write_causes(G, tables, uri, out, inc) - {"model-version-defaulted"}
                fl = oracle_c06(tables, uri, inc, out) if prop == "C06" else (oracle_c07(uri, out) if prop == "C07" else [])
                for sig, detail in fl:
                    ctx.fail(("%s/known:" % prop + "+".join(sorted(causes))) if causes else sig, dict(kind="write", files=files, uri=uri, inc=inc, vseed=vseed, vkinds=vkinds), sig + ": " + detail)
            if prop == "C05":
                base = [f for f in files if f[0].endswith("Opc.Ua.NodeSet2.xml")]
                if base:
                    causes = set()
                    for uri in g.uris:
                        if uri in G.namespaces: causes |= write_causes(G, tables, uri, outs.get((uri, True), ["ok", ""]))
                    for sig, detail in oracle_c05(work, G, tables, g, base[0]):
                        # a recorded defect absorbs only the kind of failure it explains: the defaulted version shows in the models and nowhere else
                        cs = attribute_c05(sig, causes)
                        ctx.fail(("C05/known:" + "+".join(sorted(cs))) if cs else sig, dict(kind="roundtrip", files=files, vseed=vseed, vkinds=vkinds), sig + ": " + detail)
                    # the same round trip executed INSIDE the model (write_text for every namespace, then parse_text_files on those texts and the
                    # untouched base document) against the implementation's write-then-parse_xml_files, both reduced to (URI, identifier) level
                    targets = [u for u in G.namespaces[1:] if u != "None"]
                    wfiles = []; ok = True
                    for i, uri in enumerate(targets):
                        o = outs.get((uri, True)) or impl_write(copy.deepcopy(G), uri, True)
                        if o[0] != "ok": ok = False; break
                        wfiles.append(("w%02d.xml" % i, o[1]))
                    if ok:
                        rt_out, _ = parsecmp.impl_parse(work + "_rt", [base[0]] + wfiles, None)
                        shutil.rmtree(work + "_rt", ignore_errors=True)
                        E = uaconv.float_table(sorted(set(x for _, tx in wfiles for x in uaconv.texts_of_xml(tx.encode("utf-8"))))) + uaconv.gt_entries(["2.0", "1.0", "0.0"])
                        RT_REQS.append([Sym("c05_roundtrip"), E, T0.isoformat(), "NOW", tables[:4], [[os.path.join(work + "_rt", base[0][0]), base[0][1]]],
                                        [[u, os.path.join(work + "_rt", "w%02d.xml" % i)] for i, u in enumerate(targets)]])
                        RT_META.append((ci, rt_out, bool(causes & {"raw-nodeid-attribute", "quote-in-attribute", "uri-unescaped", "empty-namespace", "namespace-without-base-use"})))
        # two fixed cases outside the generated graphs (oracle only)
        if prop == "C06":
            # a namespace of more than 100000 nodes (the size at which the parser, and whoever copies its habits, starts to work in batches)
            for sig, detail in big_namespace_case(work + "_big", 100001): ctx.fail(sig, dict(kind="big-namespace", n=100001), detail)
            ctx.record(dict(case="big-namespace", n=100001), True, ["big-namespace"])
            shutil.rmtree(work + "_big", ignore_errors=True)
        if prop == "C07":
            for sig, detail in overwrite_case(work + "_ow"): ctx.fail(sig, dict(kind="overwrite"), detail)
            ctx.record(dict(case="overwrite-existing-file"), True, ["file-output", "existing-longer-file"])
            shutil.rmtree(work + "_ow", ignore_errors=True)
    finally:
        shutil.rmtree(work, ignore_errors=True)
    ans = vlib.run_model(reqs, shards=8)
    # the proved-sound decision procedure for the regularity conditions of C06_node_elements / C06_first_uri, on every generated case;
    # it must agree with the harness's own attribution of the two recorded findings that are its negation
    rans = vlib.run_model(REG_REQS, shards=8)
    nreg = 0
    for (ci, uri, inc, causes), ra in zip(REG_META, rans):
        reg = vlib.untext(ra) == "true"
        nreg += reg
        neg = bool(causes & {"empty-namespace", "namespace-without-base-use"})
        if reg and neg: ctx.disagree("regularity", dict(case=ci, uri=uri, inc=inc), "harness attributes %r" % sorted(causes), "regular_b = true")
    ctx.notes["cases_in_domain_of_C06_node_elements"] = "%d of %d" % (nreg, len(REG_REQS))
    del REG_REQS[:]; del REG_META[:]
    # the written TEXT, character for character (coq/M_WriteText.v); only the time stamps that the code takes from now() are masked
    tans = vlib.run_model(TXT_REQS, shards=8)
    same_text = 0; first_diff = None
    for (ci, uri, inc, out), ta in zip(TXT_META, tans):
        ta = vlib.untext(ta)
        if out[0] != "ok" or ta[0] != "ok": continue          # outcomes are compared by the document correspondence above
        it = canon_text_order(NOWTXT.sub('PublicationDate="NOW"', out[1])); mt = canon_text_order(ta[1])
        if it == mt: same_text += 1
        else:
            k = next((i for i, (a, b) in enumerate(zip(it, mt)) if a != b), min(len(it), len(mt)))
            ctx.disagree("text", dict(case=ci, uri=uri, inc=inc), it[max(0, k - 60):k + 60], mt[max(0, k - 60):k + 60])
    ctx.notes["written_text_identical"] = "%d documents" % same_text
    # the decision procedure of theorem C07_written_text_wellformed on every case: inside its domain the implementation's text must be
    # accepted by an independent XML reader (the theorem says the model's - identical - text is well-formed)
    cans = vlib.run_model([[Sym("text_clean")] + r[1:] for r in TXT_REQS], shards=8)
    nclean = 0
    for (ci, uri, inc, out), ca in zip(TXT_META, cans):
        if vlib.untext(ca) != "true": continue
        nclean += 1
        if out[0] != "ok": ctx.disagree("out-of-domain" if "row-labels-as-ids" in CAUSES_OF.get((ci, uri, inc), ()) else "text-domain", dict(case=ci, uri=uri, inc=inc), out[:2], "text_clean = true"); continue
        try: ET.fromstring(out[1].encode("utf-8"))
        except ET.XMLSyntaxError as e:
            ctx.fail("C07/ill-formed-inside-theorem-domain", dict(kind="write", files=None, uri=uri, inc=inc), str(e)[:150])
    ctx.notes["cases_in_domain_of_C07_written_text_wellformed"] = "%d of %d" % (nclean, len(TXT_REQS))
    del TXT_REQS[:]; del TXT_META[:]
    if RT_REQS:
        rtans = vlib.run_model(RT_REQS, shards=8)
        n_rt = 0
        for (ci, rt_out, unclean), ra in zip(RT_META, rtans):
            mo = parsecmp.dec_model(ra)
            if mo[0] == "err" and mo[1] == "Unsupported": continue
            n_rt += 1
            io = parseprops.denotation(rt_out) if rt_out[0] == "ok" else ["err"]
            mm = parseprops.denotation(mo) if mo[0] == "ok" else ["err"]
            if io != mm:
                ctx.disagree("out-of-domain" if unclean else "roundtrip", dict(case=ci), "implementation write+parse: %s" % (str(io)[:300]), "model write_text+parse_text_files: %s" % (str(mm)[:300]))
        ctx.notes["round_trips_executed_in_the_model"] = n_rt
        del RT_REQS[:]; del RT_META[:]
    uns = 0
    for (ci, uri, inc, out), a in zip(meta, ans):
        mo = dec_doc(a)
        if mo[0] == "err" and mo[1] == "Unsupported": uns += 1; continue
        if out[0] == "ok":
            try: io = ["ok", xml_to_docsx(out[1], "out.xml")]
            except Exception as e: io = ["ill-formed"]
        else: io = ["err"]
        mm = mo if mo[0] == "ok" else ["err"]
        if io == mm or (io[0] == "ok" and mm[0] == "ok" and same_doc(io[1], mm[1])): continue
        # where the code splices strings into markup without escaping, the element-level model (what a reader gives back) does not apply;
        # the text-level model below is compared character for character on those cases too
        unesc = CAUSES_OF.get((ci, uri, inc), set()) & {"raw-nodeid-attribute", "quote-in-attribute", "uri-unescaped", "row-labels-as-ids"}
        # (an ill-formed document is outside the model only where a recorded unescaped splice explains it; a write that the validator refuses because it read
        #  row labels as ids is outside the writer model, which does not contain the validator - that is C16's model)
        stream = "out-of-domain" if unesc else "write"
        def first_diff(a, b):
            if a[0] != "ok" or b[0] != "ok": return None
            a = copy.deepcopy(a)
            try:
                for ma, mb in zip(a[1][2][0], b[1][2][0]):
                    for ra, rb in zip(ma[1], mb[1]):
                        for x, y in zip(ra, rb):
                            if y == ["PublicationDate", "NOW"] and x[0] == "PublicationDate": x[1] = "NOW"
            except Exception: pass
            for i, (x, y) in enumerate(zip(a[1], b[1])):
                if x != y:
                    if i == 4:
                        for nx, ny in zip(x, y):
                            if nx != ny: return "node: impl %r | model %r" % (nx, ny)
                        return "node count %d vs %d" % (len(x), len(y))
                    return "part %d: impl %r | model %r" % (i, x, y)
            return None
        fd = first_diff(io, mm)
        ctx.disagree(stream, dict(case=ci, uri=uri, inc=inc), io if io[0] != "ok" else "document differs: %s" % (fd or "")[:700], mm if mm[0] != "ok" else "document differs")
    ctx.notes["unsupported_by_model"] = uns
    pick = [i for i in range(len(reqs)) if len(vlib.to_sx(reqs[i])) < 9000][:6]
    ctx.crosscheck = vlib.coq_crosscheck([reqs[i] for i in pick], [ans[i] for i in pick], prop.lower())

REFRE = re.compile(r"<Reference .*?</Reference>", re.S)
def canon_text_order(text):
    """the order of node elements and of the Reference elements inside a node comes out of pandas joins and is not modelled: both texts
    are compared with the node blocks and each node's Reference elements sorted; every other character must be identical"""
    head, sep, rest = text.partition("<Aliases></Aliases>\n")
    if not sep or not rest.endswith("\n</UANodeSet>"): return text
    body = rest[:-len("\n</UANodeSet>")]
    blocks = re.split(r"\n(?=<UA(?:Object|Variable|Method|View|ObjectType|VariableType|DataType|ReferenceType) NodeId=)", body) if body else []
    def fix(b):
        refs = REFRE.findall(b)
        if len(refs) < 2: return b
        i = b.index(refs[0]); j = b.rindex(refs[-1]) + len(refs[-1])
        return b[:i] + "".join(sorted(refs)) + b[j:]
    return head + sep + "\n".join(sorted(fix(b) for b in blocks)) + "\n</UANodeSet>"

def write_causes(G, tables, uri, out, inc=True):
    """recorded defects that apply to writing this namespace of this graph"""
    c = set()
    ns = tables[0]
    k = ns.index(uri) if uri in ns else None
    mine = [r for r in tables[1] if int(r[1][0]) == k]
    if not mine: c.add("empty-namespace")
    else:
        refs = tables[2]
        if not inc:       # the references the writer keeps: into the namespace, or a type definition / modelling rule
            special = [r[1] for r in tables[1] if r[0] == "UAReferenceType" and r[2] in ("HasTypeDefinition", "HasModellingRule")]
            refs = [t for t in refs if int(t[1][0]) == k or t[2] in special]
        uses0 = any(r[3] == ["0"] for r in mine) or any(int(t[i][0]) == 0 for t in refs for i in range(3) if int(t[0][0]) == k or int(t[1][0]) == k) \
                or any(v[0] == "n" and int(v[1][0]) == 0 for r in mine for a, v in r[6])
        if not uses0: c.add("namespace-without-base-use")
    for r in mine:
        if '"' in r[1][2] or '"' in r[2] or any(a == "SymbolicName" and ('"' in v[1] or "<" in v[1] or "&" in v[1]) for a, v in r[6]): c.add("quote-in-attribute")
        for a, v in r[6]:
            if v[0] == "n" and any(ch in v[1][2] for ch in "<&\""): c.add("raw-nodeid-attribute")
    for u in ns:
        if "&" in u or "<" in u: c.add("uri-unescaped")
    if any(m.get("version") is None for m in G.models): c.add("model-version-defaulted")
    # the write-time validator looks declared types up by ROW LABEL (recorded under C16): on a graph whose node table is labelled otherwise than by its
    # ids, a correctly typed variable can be rejected and the write raises ValidationError.  Explains exactly that outcome and nothing else.
    if out and out[0] == "err" and len(out) > 1 and out[1] == "ValidationError" and list(G.nodes.index) != [int(i) for i in G.nodes["id"]]: c.add("row-labels-as-ids")
    return c

TRUSTED = ["hand-written Gallina model coq/M_Write.v of UAGraph.write_nodeset, remove_instance_level_outgoing_references, create_nodeset2_file, find_namespaces_in_use, reindex_nodeids_browsenames, "
           "create_header_xml, generate_nodes_xml and generate_references_xml, as the element structure the written text denotes (escaping is modelled by what an XML reader gives back); "
           "values through the tree-level encoder vtree of coq/M_C08.v",
           "the written text is read back with lxml and compared with the model's document (node elements and references as sorted multisets: pandas row order is not modelled)",
           "the write-time validator (C16) is avoided by generating variables whose DataType matches their value",
           "extraction + driver.ml, cross-checked against vm_compute on a sample"]
RULE = ("graphs are built from serialisations of random abstract graphs (1-3 namespaces plus a base document; dependency shapes through references, browse-name namespaces and attribute targets; "
        "30% with hostile text); every non-base namespace is written with both settings of the outgoing-reference switch and occasionally a new model version. Distinct by SHA-256; non-trivial with more than one non-base namespace.")

# ---------------------------------------------------------------------------------------------- replays of recorded findings
def _base_doc():
    nodes = [dict(cls=c, attrs=[("NodeId", "i=%s" % i), ("BrowseName", n)], display=[n], desc=None, refs=[], value=None)
             for i, c, n in [("45", "UAReferenceType", "HasSubtype"), ("47", "UAReferenceType", "HasComponent"), ("40", "UAReferenceType", "HasTypeDefinition"),
                             ("37", "UAReferenceType", "HasModellingRule"), ("1", "UADataType", "Boolean"), ("24", "UADataType", "BaseDataType"), ("85", "UAObject", "Objects")]]
    return dict(uris=None, models=None, aliases=None, nodes=nodes)
def _node(cls, nid, bn, attrs=(), refs=(), value=None):
    return dict(cls=cls, attrs=[("NodeId", nid), ("BrowseName", bn)] + list(attrs), display=[bn.split(":")[-1]], desc=None, refs=list(refs), value=value)
def known_case(which):
    """(files, uri to write) exhibiting one recorded finding"""
    U = "urn:known:a"
    model = [dict(attrs=[("ModelUri", U), ("Version", "1.0.0"), ("PublicationDate", "2020-01-01T00:00:00Z")], required=[[("ModelUri", UA), ("Version", "1.04"), ("PublicationDate", "2019-01-01T00:00:00Z")]])]
    uris = [U]; nodes = [_node("UAObject", "ns=1;i=1", "1:A", refs=[("i=47", "false", "i=85")])]
    if which == "empty": uris = [U, "urn:known:empty"]; write = "urn:known:empty"
    else: write = U
    if which == "nobase": nodes = [_node("UAObject", "ns=1;i=1", "1:A")]
    if which == "quote": nodes = [_node("UAObject", 'ns=1;s=a"b', "1:A", refs=[("i=47", "false", "i=85")])]
    if which == "rawattr": nodes = [_node("UAObject", "ns=1;s=x<y", "1:P", refs=[("i=47", "false", "i=85")]), _node("UAObject", "ns=1;i=2", "1:C", attrs=[("ParentNodeId", "ns=1;s=x<y")], refs=[("i=47", "false", "i=85")])]
    if which == "uri": U2 = "http://known/a?x=1&y=2"; uris = [U2]; write = U2; model = [dict(attrs=[("ModelUri", U2), ("Version", "1.0.0")], required=[])]
    if which == "noversion": model = [dict(attrs=[("ModelUri", U)], required=[])]
    if which == "reqversion": model = [dict(attrs=[("ModelUri", U), ("Version", "1.0.0")], required=[[("ModelUri", UA), ("PublicationDate", "2019-01-01T00:00:00Z")]])]
    if which == "vtvalue": nodes = [_node("UAVariableType", "ns=1;i=1", "1:VT", attrs=[("DataType", "i=1")], refs=[("i=45", "false", "i=85")], value='<Boolean xmlns="%s">true</Boolean>' % uaconv.TYPES_NS)]
    if which == "flags": nodes = [_node("UAObjectType", "ns=1;i=1", "1:T", attrs=[("IsAbstract", "true")], refs=[("i=45", "false", "i=85")]), _node("UAVariable", "ns=1;i=2", "1:V", attrs=[("DataType", "i=1")], refs=[("i=47", "false", "i=85")])]
    if which == "rowlabels": nodes = [_node("UADataType", "i=12", "String"), _node("UAVariable", "ns=1;i=2", "1:V", attrs=[("DataType", "i=1")], refs=[("i=47", "false", "i=85")], value='<Boolean xmlns="%s">true</Boolean>' % uaconv.TYPES_NS)]
    if which == "eventnotifier": nodes = [_node("UAObject", "ns=1;i=1", "1:A", attrs=[("EventNotifier", "255")], refs=[("i=47", "false", "i=85")]),
                                          _node("UAVariable", "ns=1;i=2", "1:V", attrs=[("DataType", "i=1"), ("AccessLevel", "255"), ("ValueRank", "-1")], refs=[("i=47", "false", "i=85")])]
    d = dict(uris=uris, models=model, aliases=None, nodes=nodes)
    return [("Opc.Ua.NodeSet2.xml", docs.render(_base_doc())), ("a.xml", docs.render(d))], write

def big_namespace_case(work, n):
    """C06 on a namespace of n more nodes than the small known case has (oracle only): every node of the namespace is declared exactly once"""
    import pandas as pd, lxml.etree as ET
    from opcua_tools.ua_graph import UAGraph
    from opcua_tools.ua_data_types import UANodeId
    files, uri = known_case("eventnotifier")
    st, G = graphprops.build(graphprops.write_files(work, files))
    if G is None: return [("C06/case-unbuildable", "%r" % (st,))]
    ns = G.namespaces.index(uri)
    tmpl = G.nodes[(G.nodes["NodeClass"] == "UAObject") & (G.nodes["ns"] == ns)].iloc[0].to_dict()
    first = int(G.nodes["id"].max()) + 1
    cols = {c: [tmpl[c]] * n for c in G.nodes.columns}
    cols["id"] = list(range(first, first + n))
    cols["NodeId"] = [UANodeId(ns, tmpl["NodeId"].nodeid_type, str(500000 + j)) for j in range(n)]
    cols["BrowseName"] = ["Big%d" % j for j in range(n)]; cols["DisplayName"] = cols["BrowseName"]
    nodes = pd.concat([G.nodes, pd.DataFrame(cols).astype(G.nodes.dtypes.to_dict())], ignore_index=True)
    G2 = UAGraph(nodes=nodes, references=G.references, namespaces=G.namespaces, models=G.models)
    want = sorted(str(x.value) for x in G2.nodes.loc[G2.nodes["ns"] == ns, "NodeId"])
    fails = []
    for inc in (True, False):
        out = impl_write(G2, uri, inc)
        if out[0] != "ok": fails.append(("C06/write-raises", "%d nodes, inc=%r: %s" % (n, inc, out[1:]))); continue
        got = sorted(e.get("NodeId").split("=")[-1] for _, e in ET.iterparse(io.BytesIO(out[1].encode("utf-8")), events=("end",)) if ET.QName(e).localname.startswith("UA") and e.get("NodeId"))
        if got != want:
            from collections import Counter
            twice = [k for k, c in Counter(got).items() if c > 1][:3]; lost = sorted(set(want) - set(got))[:3]
            fails.append(("C06/nodes", "%d nodes in the namespace, %d node elements written (inc=%r); declared more than once: %r; missing: %r" % (len(want), len(got), inc, twice, lost)))
    return fails

def overwrite_case(work):
    """C07 on output to a file PATH at which a longer document already stands: namespace A (many nodes) is written to model.xml, then namespace B (few nodes) to the same
    path; what stands on disk afterwards must be the document a StringIO write of B gives"""
    U1, U2 = "urn:known:long", "urn:known:short"
    mod = lambda u: dict(attrs=[("ModelUri", u), ("Version", "1.0.0"), ("PublicationDate", "2020-01-01T00:00:00Z")], required=[[("ModelUri", UA), ("Version", "1.04"), ("PublicationDate", "2019-01-01T00:00:00Z")]])
    d1 = dict(uris=[U1], models=[mod(U1)], aliases=None, nodes=[_node("UAObject", "ns=1;i=%d" % j, "1:Long%d" % j, refs=[("i=47", "false", "i=85")]) for j in range(1, 40)])
    d2 = dict(uris=[U2], models=[mod(U2)], aliases=None, nodes=[_node("UAObject", "ns=1;i=1", "1:S", refs=[("i=47", "false", "i=85")])])
    files = [("Opc.Ua.NodeSet2.xml", docs.render(_base_doc())), ("a.xml", docs.render(d1)), ("b.xml", docs.render(d2))]
    st, G = graphprops.build(graphprops.write_files(work, files))
    if G is None: return [("C07/case-unbuildable", "%r" % (st,))]
    path = os.path.join(work, "model.xml")
    fails = []
    try:
        for u in (U1, U2, U1, U2):
            G.write_nodeset(path, u, last_modified=T0, publication_date=T0)
            want = impl_write(G, u, True)
            got = open(path, encoding="utf-8").read()
            if want[0] != "ok" or got != want[1]:
                fails.append(("C07/file-differs-from-document", "writing %s to a path that held a document of %s: %d characters on disk, the document has %d" % (u, "another namespace", len(got), len(want[1]) if want[0] == "ok" else -1)))
                break
            fails += [(s_, "file output over an existing file: " + d_) for s_, d_ in oracle_c07(u, ["ok", got])]
        # time stamps given by the caller in a zone other than UTC (datetime.now().astimezone() on most machines), and naive ones
        import datetime as _dt
        for tz_ in (_dt.timezone(_dt.timedelta(hours=2)), _dt.timezone(-_dt.timedelta(hours=9, minutes=30)), None):
            ts_ = _dt.datetime(2024, 5, 6, 7, 8, 9, 120000, tzinfo=tz_)
            s_io = io.StringIO(); G.write_nodeset(s_io, U2, last_modified=ts_, publication_date=ts_)
            fails += [(s_, "time stamps with UTC offset %s: " % (tz_,) + d_) for s_, d_ in oracle_c07(U2, ["ok", s_io.getvalue()])]
    except BaseException as e:
        fails.append(("C07/write-raises", "file output over an existing file: %s" % type(e).__name__))
    return fails

def case_replay(case, prop):
    """replay of a stored failing input (kind write / roundtrip): the oracle only, on the stored files"""
    if case.get("kind") in ("big-namespace", "overwrite"):
        work_ = os.path.join(vlib.WORK, "crx_%s_%d" % (prop, os.getpid()))
        try: return big_namespace_case(work_, case["n"]) if case["kind"] == "big-namespace" else overwrite_case(work_)
        finally: shutil.rmtree(work_, ignore_errors=True)
    work = os.path.join(vlib.WORK, "cr_%s_%d" % (prop, os.getpid()))
    try:
        files = [tuple(f) for f in case["files"]]
        paths = graphprops.write_files(work, files)
        st, G = graphprops.build(paths)
        if G is None: return [("%s/case-unbuildable" % prop, "%r" % (st,))]
        if "vseed" in case: _, G = graph_variant(G, random.Random(case["vseed"]), case.get("vkinds"))
        tables = graph_tables(G)
        if case["kind"] == "roundtrip":
            base = [f for f in files if f[0].endswith("Opc.Ua.NodeSet2.xml")]
            causes = set()
            for uri in G.namespaces[1:]: causes |= write_causes(G, tables, uri, ["ok", ""])
            fl = oracle_c05(work, G, tables, None, base[0])
        else:
            uri, inc = case["uri"], case["inc"]
            out = impl_write(copy.deepcopy(G), uri, inc)
            causes = write_causes(G, tables, uri, out, inc) - {"model-version-defaulted"}
            fl = oracle_c06(tables, uri, inc, out) if prop == "C06" else oracle_c07(uri, out)
        def attributed(sig):
            cs = attribute_c05(sig, causes) if case["kind"] == "roundtrip" else causes
            return ("%s/known:" % prop + "+".join(sorted(cs))) if cs else sig
        return [(attributed(sig), sig + ": " + detail) for sig, detail in fl]
    finally:
        shutil.rmtree(work, ignore_errors=True)

def write_replay(case, prop):
    work = os.path.join(vlib.WORK, "wr_%s_%d" % (prop, os.getpid()))
    try:
        files, uri = known_case(case["which"])
        paths = graphprops.write_files(work, files)
        st, G = graphprops.build(paths)
        if G is None: return [("%s/known-case-unbuildable" % prop, "%r" % (st,))]
        if case["which"] == "rowlabels":
            # the same graph with the row labels of the Boolean and the String data type exchanged (labels are the caller's business)
            from opcua_tools.ua_graph import UAGraph
            nodes_ = G.nodes.copy(); lab = list(nodes_.index)
            ib = lab[list(nodes_["DisplayName"]).index("Boolean")]; is_ = lab[list(nodes_["DisplayName"]).index("String")]
            nodes_.index = [is_ if l == ib else (ib if l == is_ else l) for l in lab]
            G = UAGraph(nodes=nodes_, references=G.references.copy(), namespaces=list(G.namespaces), models=copy.deepcopy(G.models))
        tables = graph_tables(G)
        out = impl_write(copy.deepcopy(G), uri, True)
        causes = write_causes(G, tables, uri, out)
        if prop == "C06": fl = oracle_c06(tables, uri, True, out); causes -= {"model-version-defaulted"}
        elif prop == "C07": fl = oracle_c07(uri, out); causes -= {"model-version-defaulted"}
        else: fl = oracle_c05(work, G, tables, None, files[0])
        def attributed(sig):
            cs = attribute_c05(sig, causes) if case["kind"] == "roundtrip" else causes
            return ("%s/known:" % prop + "+".join(sorted(cs))) if cs else sig
        return [(attributed(sig), sig + ": " + detail) for sig, detail in fl]
    finally:
        shutil.rmtree(work, ignore_errors=True)
