"""Shared by C01-C04, C11, C18: run parse_xml_files on rendered documents and the parser model on their ASTs, canonicalise, compare."""
import os, shutil, math
import pandas as pd
import lxml.etree as ET
import vlib, docs, uaconv
from vlib import Sym
from uaconv import canon_sx, py2canon

FIXED = {"NodeClass", "DisplayName", "Description", "Value", "NodeId", "BrowseName", "BrowseNameNamespace", "ns", "id"}
REFCOLS = ("ParentNodeId", "DataType", "MethodDeclarationId")

def value_el_sx(value_xml):
    el = ET.fromstring('<Value xmlns="%s">%s</Value>' % (docs.NS_NODESET, value_xml))
    return uaconv.el2sx(el)

def doc_sx(fname, d):
    """docs.py AST -> model doc"""
    nodes = []
    for n in d.get("nodes", []):
        disp = n.get("display") or []
        nodes.append([n["cls"], [list(kv) for kv in n["attrs"]],
                      [] if not disp else [[] if disp[0] == "" else [disp[0]]],
                      [] if n.get("desc") is None else [[] if n["desc"] == "" else [n["desc"]]],
                      [[[["ReferenceType", ty]] + ([["IsForward", fwd]] if fwd is not None else []), [] if trg == "" else [trg]] for ty, fwd, trg in (n.get("refs") or [])],
                      [] if n.get("value") is None else [value_el_sx(n["value"])]])
    return [fname,
            [] if d.get("uris") is None else [list(d["uris"])],
            [] if d.get("models") is None else [[[[list(kv) for kv in m["attrs"]], [[list(kv) for kv in r] for r in m.get("required") or []]] for m in d["models"]]],
            [] if d.get("aliases") is None else [[[a, [] if t == "" else [t]] for a, t in d["aliases"]]],
            nodes]

def nid_sx(n): return [str(n.namespace), n.nodeid_type.value, str(n.value)]
def isna(x): return x is None or x is pd.NA or (isinstance(x, float) and math.isnan(x))

def canon_result(res):
    nodes, refs, lk = res["nodes"], res["references"], res["lookup_df"]
    uniq = res["uniq_map"] if "uniq_map" in res else list(lk["uniques"])       # id -> NodeId (a parse result: ids are positions)
    rows = []; norm = []
    for _, r in nodes.iterrows():
        attrs = []
        for c in nodes.columns:
            if c in FIXED: continue
            v = r[c]
            if isna(v): continue
            if c in REFCOLS: attrs.append([c, ["n", nid_sx(uniq[int(v)])]])
            elif isinstance(v, (bool,)) or type(v).__name__ == "bool_": attrs.append([c, ["b", "true" if v else "false"]])
            elif isinstance(v, str): attrs.append([c, ["s", v]])
            else: attrs.append([c, ["i", str(int(v))]])
        bns = r["BrowseNameNamespace"]
        rows.append([r["NodeClass"], nid_sx(r["NodeId"]), r["BrowseName"], [] if isna(bns) else [str(int(bns))], r["DisplayName"], r["Description"],
                     sorted(attrs), [] if isna(r["Value"]) else [py2canon(r["Value"])], str(int(r["ns"]))])
        def oid(c): return [] if (c not in nodes.columns or isna(r[c])) else [str(int(r[c]))]
        norm.append([oid("id"), oid("ParentNodeId"), oid("DataType"), oid("MethodDeclarationId")])
    triples = []; nrefs = []
    for _, r in refs.iterrows():
        ids = [r["Src"], r["Trg"], r["ReferenceType"]]
        nrefs.append([[] if isna(i) or int(i) < 0 else [str(int(i))] for i in ids])
        triples.append([nid_sx(uniq[int(i)]) for i in ids])
    models = [[uaconv.opt(m.get("uri")), uaconv.opt(m.get("publication_date")), uaconv.opt(m.get("version")),
               [[uaconv.opt(q.get("uri")), uaconv.opt(q.get("publication_date")), uaconv.opt(q.get("version"))] for q in m.get("required_models", [])]] for m in res["models"]]
    return [list(res["namespaces"]), rows, triples, canon_sx(models), [nid_sx(u) for u in ([uniq[k] for k in sorted(uniq)] if isinstance(uniq, dict) else uniq)], norm, nrefs]

def impl_parse(workdir, files, caller=None, order=None):
    """files: [(name, xml text)]; returns ['ok', canonical] / ['err', class]"""
    from opcua_tools.nodeset_parser import parse_xml_files
    shutil.rmtree(workdir, ignore_errors=True); os.makedirs(workdir)
    for n, t in files: open(os.path.join(workdir, n), "w", encoding="utf-8").write(t)
    paths = [os.path.join(workdir, n) for n in (order or [n for n, _ in files])]
    try:
        res = parse_xml_files(paths, None if caller is None else list(caller))
        return ["ok", canon_result(res)], res
    except BaseException as e:
        return ["err", type(e).__name__], None

def model_request(workdir, docset, caller, value_texts=()):
    """docset: [(name, doc AST)]; file paths as the implementation sees them"""
    E = uaconv.float_table([t for vt in value_texts for t in uaconv.texts_of_xml('<V xmlns="%s">%s</V>' % (uaconv.TYPES_NS, vt))]) + uaconv.gt_entries(["2.0", "1.0", "0.0"])
    return [Sym("parse_files"), E, list(caller or []), [doc_sx(os.path.join(workdir, n), d) for n, d in docset]]

def model_request_text(workdir, files, caller, value_texts=()):
    """files: [(name, XML text)] - the very bytes the implementation parses; the model reads them with its own XML reader"""
    E = uaconv.float_table([t for vt in value_texts for t in uaconv.texts_of_xml('<V xmlns="%s">%s</V>' % (uaconv.TYPES_NS, vt))]) + uaconv.gt_entries(["2.0", "1.0", "0.0"])
    return [Sym("parse_text_files"), E, list(caller or []), [[os.path.join(workdir, n), t] for n, t in files]]

def dec_model(a):
    a = vlib.untext(a)
    if a[0] == "ok":
        p = a[1]
        rows = [[r[0], r[1], r[2], r[3], r[4], r[5], sorted(r[6]), r[7], r[8]] for r in p[1]]
        return ["ok", [p[0], rows, p[2], p[3], p[4], p[5], p[6]]]
    if a[0] == "err": return ["err", a[1]]
    return ["model-failure", a]

def diff(out, mo):
    """first difference between two canonical results, for reports"""
    if out[0] != mo[0]: return "status %r vs %r" % (out[:2] if out[0] == "err" else out[0], mo[:2] if mo[0] == "err" else mo[0])
    if out[0] == "err": return None
    names = ["namespaces", "nodes", "references", "models", "lookup", "node-ids", "reference-ids"]
    for i, nm in enumerate(names):
        if out[1][i] != mo[1][i]:
            a, b = out[1][i], mo[1][i]
            if isinstance(a, list) and isinstance(b, list) and len(a) == len(b):
                for j, (x, y) in enumerate(zip(a, b)):
                    if x != y: return "%s[%d]: impl %r model %r" % (nm, j, x, y)
            return "%s: impl %r model %r" % (nm, str(a)[:300], str(b)[:300])
    return None
